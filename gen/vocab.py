"""Independent reading of the bundled schema XML (xml.etree, not hed-python's schema objects).

Provides: plain leaf tags without special attributes, value-taking tags with their unit classes and
units, and a tiny HED text splitter used by several oracles.
"""
import os
import xml.etree.ElementTree as ET

_CACHE = {}
SPECIAL = {"requireChild", "unique", "required", "topLevelTagGroup", "tagGroup", "reserved", "deprecatedFrom",
           "relatedTag", "extensionAllowed_blocked"}


def _attrs(node):
    out = {}
    for a in node.findall("attribute"):
        n = a.findtext("name")
        vals = [v.text for v in a.findall("value")]
        out[n] = vals if vals else True
    return out


def load(version="8.3.0"):
    if version in _CACHE:
        return _CACHE[version]
    repo = os.environ.get("VERIF_REPO", "/repo")
    path = os.path.join(repo, "hed", "schema", "schema_data", "HED%s.xml" % version)
    root = ET.parse(path).getroot()
    schema = root.find("schema")
    plain, value_tags = [], {}

    def walk(node, inherited, top):
        name = node.findtext("name")
        at = _attrs(node)
        inh = dict(inherited)
        inh.update(at)
        kids = node.findall("node")
        real_kids = [k for k in kids if k.findtext("name") != "#"]
        ph = [k for k in kids if k.findtext("name") == "#"]
        special = any(k in inh for k in SPECIAL)
        if ph and not special:
            pat = _attrs(ph[0])
            value_tags[name] = {"unitClass": pat.get("unitClass") or [], "valueClass": pat.get("valueClass") or [],
                                "top": top}
        if not real_kids and not ph and not special and "takesValue" not in at:
            plain.append((name, top))
        for k in real_kids:
            walk(k, {k2: v for k2, v in inh.items() if k2 in ("topLevelTagGroup", "tagGroup", "reserved", "unique", "required")}, top)

    for n in schema.findall("node"):
        walk(n, {}, n.findtext("name"))
    units = {}
    ucd = root.find("unitClassDefinitions")
    for uc in ucd.findall("unitClassDefinition"):
        nm = uc.findtext("name")
        at = _attrs(uc)
        us = []
        for u in uc.findall("unit"):
            ua = _attrs(u)
            us.append({"name": u.findtext("name"), "symbol": "unitSymbol" in ua, "si": "SIUnit" in ua,
                       "factor": (ua.get("conversionFactor") or ["1.0"])[0], "prefix": "unitPrefix" in ua})
        units[nm] = {"default": (at.get("defaultUnits") or [None])[0], "units": us}
    v = {"plain": plain, "value_tags": value_tags, "units": units}
    _CACHE[version] = v
    return v


# A conservative hand-picked vocabulary (checked against the XML at import of a check) for generators that need
# tags which are certainly valid anywhere in an annotation.
SAFE_PLAIN = ["Red", "Blue", "Green", "Square", "Circle", "Triangle", "Cross", "Face", "Clockwise", "Yellow", "Black",
              "White", "Ellipse", "Rectangle", "Star", "Arrow", "Hand", "Foot", "Finger", "Smile"]
SAFE_VALUE = {"Age": ("#", ["5", "23", "41"]), "Label": ("#", ["abc", "Tr1", "x-9"]), "ID": ("#", ["77", "a1"]),
              "Frequency": ("# Hz", ["3", "12.5"]), "Distance": ("# m", ["2", "0.5"])}


def check_safe():
    v = load()
    names = {n for n, _ in v["plain"]}
    missing = [t for t in SAFE_PLAIN if t not in names]
    bad_vals = [t for t in SAFE_VALUE if t not in v["value_tags"]]
    return missing, bad_vals


# ------------------------------------------------------------------------------------------- text splitter
class HedParseError(ValueError):
    pass


def parse(text):
    """Split a HED annotation into a nested list: str leaves, list groups.  Raises HedParseError on
    unbalanced parentheses.  Empty elements are kept as '' so well-formedness can be judged."""
    pos = 0
    n = len(text)

    def group(depth):
        nonlocal pos
        items = []
        cur = []
        expect_item = True
        while pos < n:
            ch = text[pos]
            if ch == "(":
                pos += 1
                items.append(group(depth + 1))
                cur = None
            elif ch == ")":
                if depth == 0:
                    raise HedParseError("unbalanced ')' at %d" % pos)
                pos += 1
                if cur is not None:
                    items.append("".join(cur).strip())
                return items
            elif ch == ",":
                pos += 1
                if cur is not None:
                    items.append("".join(cur).strip())
                cur = []
            else:
                if cur is None:
                    if ch.strip():
                        raise HedParseError("text directly after ')' at %d" % pos)
                else:
                    cur.append(ch)
                pos += 1
        if depth != 0:
            raise HedParseError("unbalanced '('")
        if cur is not None:
            items.append("".join(cur).strip())
        return items
    out = group(0)
    return out


def wellformed(text):
    """Delimiter-well-formed: balanced, no empty element, no leading/trailing/double comma."""
    try:
        tree = parse(text)
    except HedParseError as e:
        return False, str(e)
    if text.strip() == "":
        return True, ""

    def chk(items):
        for it in items:
            if isinstance(it, list):
                if not it:
                    return "empty group"
                r = chk(it)
                if r:
                    return r
            elif it == "":
                return "empty element"
        return None
    r = chk(tree)
    return (r is None), (r or "")


def canon(tree):
    """Unordered canonical form with case-folded leaves."""
    out = []
    for it in tree:
        if isinstance(it, list):
            out.append(("g", canon(it)))
        else:
            out.append(("t", " ".join(it.casefold().split())))
    return tuple(sorted(out))
