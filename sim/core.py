"""Core of the deterministic simulator: seed derivation, the single source of run-time choices
(Decider), canonical digests.

One integer decides everything: a run is identified by (master seed, property, run index); its
run seed is derived with blake2b; the scenario generator draws from random.Random(run_seed) and
materialises everything into a JSON scenario; run-time choices (who runs next, listing
permutations) come from a Decider seeded from the scenario and are recorded, so a replay file
(scenario + decisions) re-executes without any PRNG.
"""
import hashlib
import json
import random

N_SHARDS = 16  # logical shards: fixed, independent of the number of OS worker processes


def derive(*parts):
    """64-bit integer derived from the parts (order-sensitive, stable across processes)."""
    h = hashlib.blake2b(digest_size=8)
    for p in parts:
        h.update(repr(p).encode("utf-8"))
        h.update(b"\x00")
    return int.from_bytes(h.digest(), "big")


def run_seed(master, prop, run_index):
    return derive("run", int(master), prop, int(run_index))


def hash_seed_for(master, prop, shard, variant=0):
    """PYTHONHASHSEED of the fresh interpreter that executes one logical shard (1..2**32-1)."""
    return 1 + derive("hashseed", int(master), prop, int(shard), int(variant)) % 4294967294


def shard_of(run_index):
    return run_index % N_SHARDS


def canon(obj):
    """Canonical JSON text (sorted keys, no whitespace) used for digests and replay files."""
    return json.dumps(obj, sort_keys=True, separators=(",", ":"), default=_default)


def _default(o):
    if isinstance(o, (set, frozenset)):
        return sorted(o)
    if isinstance(o, bytes):
        return {"__bytes_sha1__": hashlib.sha1(o).hexdigest(), "len": len(o)}
    if isinstance(o, tuple):
        return list(o)
    return repr(o)


def digest(obj):
    return hashlib.sha256(canon(obj).encode("utf-8")).hexdigest()[:24]


class Decider:
    """The only source of run-time choices in a simulated run.

    choose(label, n) returns an int in [0, n).  With a script (list of ints) the recorded values
    are replayed (mod n, so a shrunk scenario still gets legal values); when the script is
    exhausted, or without one, values come from random.Random(seed).  Every decision is appended
    to .log; logging never draws from the PRNG.
    """

    def __init__(self, seed, script=None):
        self.seed = seed
        self.rng = random.Random(seed)
        self.script = list(script) if script is not None else None
        self.log = []
        self.labels = []

    def choose(self, label, n):
        if n <= 0:
            raise ValueError("choose(%r, %r)" % (label, n))
        i = len(self.log)
        if self.script is not None and i < len(self.script):
            v = int(self.script[i]) % n
        else:
            v = self.rng.randrange(n)
        self.log.append(v)
        self.labels.append(label)
        return v

    def permute(self, label, items):
        """Fisher-Yates with recorded decisions (items already in a canonical order)."""
        items = list(items)
        for i in range(len(items) - 1, 0, -1):
            j = self.choose(label, i + 1)
            items[i], items[j] = items[j], items[i]
        return items


class Gen(random.Random):
    """Scenario generator PRNG with a few conveniences.  Used only while *generating* a scenario;
    everything it decides is written into the scenario."""

    def chance(self, p):
        return self.random() < p

    def pick(self, seq):
        return seq[self.randrange(len(seq))]

    def subset(self, seq, lo=0, hi=None):
        seq = list(seq)
        hi = len(seq) if hi is None else min(hi, len(seq))
        lo = min(lo, hi)
        k = self.randint(lo, hi)
        idx = sorted(self.sample(range(len(seq)), k))
        return [seq[i] for i in idx]

    def shuffled(self, seq):
        seq = list(seq)
        self.shuffle(seq)
        return seq


class Violation(Exception):
    """Raised by oracles.  clause: id of the oracle clause; detail: human text; sig: specific
    signature suffix (call site / input shape) used for known-findings matching."""

    def __init__(self, clause, detail, sig=None):
        super().__init__("%s: %s" % (clause, detail))
        self.clause = clause
        self.detail = detail
        self.sig = sig or ""

    def record(self, prop):
        s = "%s/%s" % (prop, self.clause)
        if self.sig:
            s += "/" + self.sig
        return {"clause": self.clause, "detail": self.detail[:2000], "signature": s}
