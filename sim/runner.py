"""Parallel runner, minimiser, replay, evidence writer and known-findings matcher.

Interface of a check module (checks/cXX.py):
    PROP, LEVEL, RULE, COMPONENTS, ASSUMPTIONS, RUNS = {"quick": n, "thorough": n}
    HASH_VARIANTS = 1 | 2      (2: every run is also executed in a second fresh interpreter under
                                another PYTHONHASHSEED and the library-result digests must agree)
    generate(run_index, seed, tier) -> scenario (JSON-able, fully materialised)
    execute(scenario, script=None) -> result dict:
        violations: [ {clause, detail, signature} ]      digest: history digest (whole run)
        hdigest: harness part only (scenario/schedule/faults)   rdigest: library results only
        decisions: [...]  nontrivial: bool  probes: {name: n}  faults: {kind: n}
        steps: int  sim_s: float  states: [digest...]  sched: digest
    shrink(scenario) -> iterable of simpler candidate scenarios (best first)
Exit status: 0 clean (or only KNOWN-FINDINGs), 1 VIOLATION, 2 HARNESS-ERROR.
"""
import faulthandler
import importlib
import json
import os
import shutil
import subprocess
import sys
import tempfile
import time
import traceback

from . import core

VERIF = os.path.dirname(os.path.dirname(os.path.abspath(__file__)))
PY = sys.executable
CHECK = os.path.join(VERIF, "check")
RUN_WATCHDOG_S = 120          # real seconds per single simulated run before the worker is killed
MAX_SIGS = int(os.environ.get("VERIF_MAX_SIGS", "12"))                 # distinct violation signatures minimised per invocation


def repo_path():
    return os.environ.get("VERIF_REPO", "/repo")


def setup_sys_path():
    rp = repo_path()
    if rp not in sys.path:
        sys.path.insert(0, rp)
    if VERIF not in sys.path:
        sys.path.insert(0, VERIF)


def load_check(prop):
    setup_sys_path()
    return importlib.import_module("checks.%s" % prop.lower())


def scratch_base():
    base = "/dev/shm" if os.path.isdir("/dev/shm") and os.access("/dev/shm", os.W_OK) else tempfile.gettempdir()
    return base


def make_scratch(tag=""):
    d = tempfile.mkdtemp(prefix="verif-%d-%s" % (os.getpid(), tag), dir=scratch_base())
    return d


# ------------------------------------------------------------------------------------ per-run process state
class ProcessState:
    """A run stands for one fresh process of the library.  Module-level and class-level containers of every loaded hed.*
    module (and lru_caches of its module-level functions) are recorded once - after the check has initialised itself and
    before the first run - and put back to that content before every run and before a replay, so that nothing a run leaves
    behind in the interpreter (a memo, a registry that grew) reaches the next run.  Without this a change that introduces
    such state shows as non-reproducible results (exit 2) instead of a violation or nothing."""

    def __init__(self):
        import copy
        self.items, self.caches = [], []
        seen = set()
        for name, m in sorted(sys.modules.items()):
            if m is None or not (name == "hed" or name.startswith("hed.")):
                continue
            for attr, v in list(vars(m).items()):
                if attr.startswith("__"):
                    continue
                self._note(v, seen, copy)
                if isinstance(v, type) and getattr(v, "__module__", None) == name:
                    for a, cv in list(vars(v).items()):
                        if not a.startswith("__"):
                            self._note(cv, seen, copy)

    def _note(self, v, seen, copy):
        if id(v) in seen:
            return
        if type(v) in (dict, list, set):
            seen.add(id(v))
            self.items.append((v, copy.copy(v)))
        elif callable(getattr(v, "cache_clear", None)) and not isinstance(v, type):
            seen.add(id(v))
            self.caches.append(v)
        else:
            fn = getattr(v, "__func__", v)        # staticmethod / classmethod objects wrap a function
            if isinstance(fn, type(ProcessState._note)):
                # mutable default arguments are per-process state too
                for d in tuple(fn.__defaults__ or ()) + tuple((fn.__kwdefaults__ or {}).values()):
                    if type(d) in (dict, list, set) and id(d) not in seen:
                        seen.add(id(d))
                        self.items.append((d, copy.copy(d)))

    def restore(self):
        n = 0
        for obj, val in self.items:
            try:
                same = len(obj) == len(val) and obj == val
            except Exception:  # noqa - elements that do not compare
                same = False
            if not same:
                n += 1
                if type(obj) is list:
                    obj[:] = val
                else:
                    obj.clear()
                    obj.update(val)
        for c in self.caches:
            try:
                c.cache_clear()
            except Exception:  # noqa
                pass
        return n


_PSTATE = {}


def fresh_process_state(mod):
    """Called before every execute(): initialises the check once, records the state, then restores it each time."""
    if os.environ.get("VERIF_NO_STATE_RESET"):
        return 0
    if "ps" not in _PSTATE:
        for fn in ("_init_worker", "_init"):
            f = getattr(mod, fn, None)
            if callable(f):
                f()
                break
        _PSTATE["ps"] = ProcessState()
        return 0
    return _PSTATE["ps"].restore()


# ------------------------------------------------------------------------------------ worker
def worker_main(prop, shard, tier, master, out_path, variant, only_runs=None):
    """Executes the runs of one logical shard in this (fresh) interpreter."""
    mod = load_check(prop)
    n_runs = mod.RUNS[tier]
    runs = [i for i in range(n_runs) if core.shard_of(i) == shard]
    if only_runs is not None:
        runs = [i for i in runs if i in only_runs]
    t0 = time.time()
    out = {"shard": shard, "hash_seed": os.environ.get("PYTHONHASHSEED"), "variant": variant,
           "runs": [], "faults": {}, "probes": {}, "violations": [], "samples": [], "states": [],
           "steps": 0, "sim_s": 0.0, "errors": []}
    states = set()
    seen_sigs = set()
    for i in runs:
        seed = core.run_seed(master, prop, i)
        faulthandler.dump_traceback_later(RUN_WATCHDOG_S, exit=True)
        try:
            sc = mod.generate(i, seed, tier)
            n_restored = fresh_process_state(mod)
            if n_restored:
                out["probes"]["process_state_restored_before_run"] = out["probes"].get("process_state_restored_before_run", 0) + 1
            res = mod.execute(sc)
        except BaseException as e:  # noqa - harness error, never a verdict
            out["errors"].append({"run": i, "error": "".join(traceback.format_exception(e))[-4000:]})
            faulthandler.cancel_dump_traceback_later()
            if len(out["errors"]) > 3:
                break
            continue
        faulthandler.cancel_dump_traceback_later()
        out["runs"].append([i, res["digest"], res.get("hdigest", ""), res.get("rdigest", ""),
                            1 if res.get("nontrivial") else 0, res.get("sched", "")])
        out["steps"] += res.get("steps", 0)
        out["sim_s"] += res.get("sim_s", 0.0)
        for k, v in res.get("faults", {}).items():
            out["faults"][k] = out["faults"].get(k, 0) + v
        for k, v in res.get("probes", {}).items():
            out["probes"][k] = out["probes"].get(k, 0) + v
        for s in res.get("states", ()):
            if len(states) < 200000:
                states.add(s)
        if len(out["samples"]) < 2 and res.get("nontrivial"):
            out["samples"].append({"run": i, "scenario": sc, "summary": res.get("summary")})
        for v in res["violations"]:
            if v["signature"] in seen_sigs:
                out.setdefault("repeat_violations", {})
                out["repeat_violations"][v["signature"]] = out["repeat_violations"].get(v["signature"], 0) + 1
                continue
            seen_sigs.add(v["signature"])
            out["violations"].append({"run": i, "scenario": sc, "decisions": res.get("decisions", []),
                                      "violation": v, "digest": res["digest"]})
    out["states"] = sorted(states)
    out["wall"] = time.time() - t0
    with open(out_path, "w") as f:
        json.dump(out, f)
    return 0


def _spawn_worker(prop, shard, tier, master, out_path, variant, only_runs=None):
    env = dict(os.environ)
    env["PYTHONHASHSEED"] = str(core.hash_seed_for(master, prop, shard, variant))
    env["PYTHONDONTWRITEBYTECODE"] = "1"
    env["PYTHONWARNINGS"] = "ignore"
    cmd = [PY, CHECK, "--worker", prop, "--shard", str(shard), "--tier", tier, "--seed", str(master),
           "--out", out_path, "--variant", str(variant)]
    if only_runs is not None:
        cmd += ["--only", ",".join(str(r) for r in sorted(only_runs))]
    return subprocess.Popen(cmd, env=env, stdout=subprocess.PIPE, stderr=subprocess.STDOUT, cwd=VERIF)


def run_shards(prop, tier, master, variant, workdir, only_runs=None, jobs=None, timeout=None):
    """Run all logical shards (each in a fresh interpreter), at most `jobs` at a time."""
    jobs = jobs or int(os.environ.get("VERIF_JOBS", "0")) or min(16, os.cpu_count() or 4)
    pending = list(range(core.N_SHARDS))
    if only_runs is not None:
        pending = sorted({core.shard_of(r) for r in only_runs})
    running = {}
    results = {}
    errors = []
    deadline = time.time() + timeout if timeout else None
    while pending or running:
        while pending and len(running) < jobs:
            k = pending.pop(0)
            outp = os.path.join(workdir, "shard-%d-v%d-%d.json" % (k, variant, len(results) + len(running)))
            running[k] = (_spawn_worker(prop, k, tier, master, outp, variant, only_runs), outp)
        done = [k for k, (p, _) in running.items() if p.poll() is not None]
        if not done:
            if deadline and time.time() > deadline:
                for k, (p, _) in running.items():
                    p.kill()
                errors.append("wall-clock limit reached; %d shards killed" % len(running))
                break
            time.sleep(0.05)
            continue
        for k in done:
            p, outp = running.pop(k)
            outtxt = p.stdout.read().decode("utf-8", "replace")
            if p.returncode != 0 or not os.path.exists(outp):
                errors.append("shard %d exited %s: %s" % (k, p.returncode, outtxt[-3000:]))
                continue
            with open(outp) as f:
                results[k] = json.load(f)
            for e in results[k].get("errors", []):
                errors.append("shard %d run %s: %s" % (k, e["run"], e["error"]))
    return results, errors


# ------------------------------------------------------------------------------------ minimise / replay
def _same_violation(res, target):
    for v in res["violations"]:
        if v["signature"] == target["signature"]:
            return v
    return None


def minimise(mod, scenario, target, budget_s=90, max_exec=400):
    """Greedy delta debugging: accept a candidate only if the same signature recurs."""
    cur = scenario
    t0 = time.time()
    n_exec = 0
    improved = True
    # a violation may carry a hint that narrows the scenario to the failing fault point
    if target.get("narrow") and hasattr(mod, "apply_narrow"):
        try:
            cand = mod.apply_narrow(scenario, target["narrow"])
            n_exec += 1
            fresh_process_state(mod)
            if _same_violation(mod.execute(cand), target):
                cur = cand
        except BaseException:  # noqa
            pass
    while improved and time.time() - t0 < budget_s and n_exec < max_exec:
        improved = False
        for cand in mod.shrink(cur):
            if time.time() - t0 > budget_s or n_exec >= max_exec:
                break
            n_exec += 1
            try:
                fresh_process_state(mod)
                r = mod.execute(cand)
            except BaseException:  # noqa - a candidate the harness cannot run is simply rejected
                continue
            if _same_violation(r, target):
                cur = cand
                improved = True
                break
    fresh_process_state(mod)
    res = mod.execute(cur)
    return cur, res, n_exec


def minimise_main(prop, in_path, out_path):
    mod = load_check(prop)
    with open(in_path) as f:
        item = json.load(f)
    faulthandler.dump_traceback_later(600, exit=True)
    sc, res, n_exec = minimise(mod, item["scenario"], item["violation"])
    v = _same_violation(res, item["violation"])
    if v is None:      # should not happen: fall back to the original
        sc = item["scenario"]
        fresh_process_state(mod)
        res = mod.execute(sc)
        v = _same_violation(res, item["violation"]) or item["violation"]
    out = {"property": prop, "seed": item["seed"], "run": item["run"],
           "hash_seed": int(os.environ.get("PYTHONHASHSEED", "0") or 0),
           "scenario": sc, "decisions": res.get("decisions", []), "violation": v,
           "digest": res["digest"], "minimisation": {"executions": n_exec,
                                                     "size_before": len(core.canon(item["scenario"])),
                                                     "size_after": len(core.canon(sc))}}
    with open(out_path, "w") as f:
        json.dump(out, f, indent=1)
    return 0


def replay_main(prop, path, strict=False):
    """Re-executes a replay file (no PRNG: recorded scenario + decisions).  Exit 1 with a VIOLATION
    line when the recorded violation recurs, 0 when it does not; with strict, anything but an
    identical record and digest is a harness error (2)."""
    with open(path) as f:
        rp = json.load(f)
    if rp.get("hash_seed_b") and rp["violation"]["clause"] == "hash-order-independence":
        # the violation is a difference between two interpreters: execute the scenario under both recorded hash seeds
        outs = []
        for hs in (rp["hash_seed"], rp["hash_seed_b"]):
            env = dict(os.environ)
            env["PYTHONHASHSEED"] = str(hs)
            env["PYTHONWARNINGS"] = "ignore"
            outs.append(subprocess.run([PY, CHECK, prop, "--rdigest", path], env=env, cwd=VERIF, capture_output=True, text=True).stdout.strip())
        if outs[0] and outs[1] and outs[0] != outs[1]:
            print("replay: library results differ between PYTHONHASHSEED %s and %s (%s vs %s)"
                  % (rp["hash_seed"], rp["hash_seed_b"], outs[0][-24:], outs[1][-24:]))
            print("VIOLATION property=%s replay=%s" % (prop, path))
            return 1
        print("replay: results agree under both hash seeds (recorded: %s)" % rp["violation"]["signature"])
        return 2 if strict else 0
    want = str(rp.get("hash_seed", 0))
    if os.environ.get("PYTHONHASHSEED") != want:
        env = dict(os.environ)
        env["PYTHONHASHSEED"] = want
        cmd = [PY, CHECK, prop, "--replay", path] + (["--strict"] if strict else [])
        return subprocess.call(cmd, env=env, cwd=VERIF)
    mod = load_check(prop)
    faulthandler.dump_traceback_later(600, exit=True)
    fresh_process_state(mod)
    res = mod.execute(rp["scenario"], script=rp.get("decisions"))
    v = _same_violation(res, rp["violation"])
    if v is not None:
        same = (res["digest"] == rp["digest"] and v == rp["violation"])
        print("replay: violation reproduced%s: %s" % (" exactly" if same else " (same signature, different digest)",
                                                      v["signature"]))
        print("  " + v["detail"].replace("\n", "\n  ")[:1500])
        if strict and not same:
            print("HARNESS-ERROR replay diverged from the recorded history")
            return 2
        print("VIOLATION property=%s replay=%s" % (prop, path))
        return 1
    if res["violations"]:
        print("replay: recorded violation not reproduced, but others: %s" % [x["signature"] for x in res["violations"]])
        if strict:
            print("HARNESS-ERROR replay diverged")
            return 2
        print("VIOLATION property=%s replay=%s" % (prop, path))
        return 1
    print("replay: no violation (recorded: %s)" % rp["violation"]["signature"])
    return 2 if strict else 0


# ------------------------------------------------------------------------------------ known findings
def load_known():
    p = os.path.join(VERIF, "known_findings.json")
    if not os.path.exists(p):
        return []
    with open(p) as f:
        return json.load(f).get("findings", [])


# ------------------------------------------------------------------------------------ main driver
def check_main(prop, tier, master):
    t0 = time.time()
    mod = load_check(prop)
    workdir = make_scratch("main-")
    status = 0
    lines = []
    try:
        n_runs = mod.RUNS[tier]
        limit = getattr(mod, "WALL_LIMIT", {"quick": 900, "thorough": 6 * 3600})[tier]
        print("[%s] tier=%s seed=%d runs=%d shards=%d repo=%s" % (prop, tier, master, n_runs, core.N_SHARDS, repo_path()))
        sys.stdout.flush()
        results, errors = run_shards(prop, tier, master, 0, workdir, timeout=limit)
        variants = getattr(mod, "HASH_VARIANTS", 1)
        results2 = {}
        if variants > 1 and not errors:
            results2, errors2 = run_shards(prop, tier, master, 1, workdir, timeout=limit)
            errors += errors2
        # ---- determinism self-test on a sample: same seeds, fresh interpreters, digests identical
        det = {"runs_rechecked": 0, "mismatches": 0, "hash_variant_harness_mismatches": 0}
        sample_n = getattr(mod, "DET_SAMPLE", {"quick": 32, "thorough": 256})[tier]
        sample = set(range(min(n_runs, sample_n)))
        if not errors and sample:
            again, errors3 = run_shards(prop, tier, master, 0, workdir, only_runs=sample, jobs=None, timeout=limit)
            errors += errors3
            first = {r[0]: r for k in results for r in results[k]["runs"]}
            for k in again:
                for r in again[k]["runs"]:
                    det["runs_rechecked"] += 1
                    if first.get(r[0]) != r:
                        det["mismatches"] += 1
                        errors.append("determinism self-test: run %d differs between two fresh interpreters: %s vs %s"
                                      % (r[0], first.get(r[0]), r))
        # ---- hash-order independence (library results) and harness independence of the hash seed
        hash_viol = []
        if results2:
            a = {r[0]: r for k in results for r in results[k]["runs"]}
            for k in results2:
                for r in results2[k]["runs"]:
                    o = a.get(r[0])
                    if o is None:
                        continue
                    if o[2] != r[2]:
                        det["hash_variant_harness_mismatches"] += 1
                        errors.append("harness part of run %d depends on PYTHONHASHSEED (%s vs %s)" % (r[0], o[2], r[2]))
                    elif o[3] != r[3]:
                        hash_viol.append(r[0])
        # ---- aggregate
        agg = {"evaluations": 0, "faults": {}, "probes": {}, "steps": 0, "sim_s": 0.0}
        digests, scheds, states, nontrivial = set(), set(), set(), set()
        samples = []
        viols = {}
        repeat = {}
        for k in sorted(results):
            r = results[k]
            agg["evaluations"] += len(r["runs"])
            agg["steps"] += r["steps"]
            agg["sim_s"] += r["sim_s"]
            for kk, vv in r["faults"].items():
                agg["faults"][kk] = agg["faults"].get(kk, 0) + vv
            for kk, vv in r["probes"].items():
                agg["probes"][kk] = agg["probes"].get(kk, 0) + vv
            for row in r["runs"]:
                digests.add(row[1])
                if row[5]:
                    scheds.add(row[5])
                if row[4]:
                    nontrivial.add(row[1])
            states.update(r["states"])
            samples += r["samples"][:1]
            for kk, vv in r.get("repeat_violations", {}).items():
                repeat[kk] = repeat.get(kk, 0) + vv
            for v in r["violations"]:
                sig = v["violation"]["signature"]
                repeat[sig] = repeat.get(sig, 0) + 1
                if sig not in viols or v["run"] < viols[sig]["run"]:
                    v["hash_seed"] = int(r["hash_seed"])
                    viols[sig] = v
        if hash_viol:
            hv = getattr(mod, "hash_violation", None)
            for run in sorted(hash_viol)[:3]:
                sig = "%s/hash-order-independence/run-results-differ" % prop
                info = hv(run, master, tier) if hv else {}
                if info.get("signature"):
                    sig = info["signature"]
                repeat[sig] = repeat.get(sig, 0) + 1
                if sig not in viols:
                    sc = mod.generate(run, core.run_seed(master, prop, run), tier)
                    viols[sig] = {"run": run, "scenario": sc, "decisions": [], "digest": "",
                                  "hash_seed": core.hash_seed_for(master, prop, core.shard_of(run), 0),
                                  "hash_seed_b": core.hash_seed_for(master, prop, core.shard_of(run), 1),
                                  "violation": {"clause": "hash-order-independence", "signature": sig,
                                                "detail": "library results of run %d differ between PYTHONHASHSEED %d and %d: %s"
                                                % (run, core.hash_seed_for(master, prop, core.shard_of(run), 0),
                                                   core.hash_seed_for(master, prop, core.shard_of(run), 1), info.get("detail", ""))},
                                  "no_minimise": True}
        # ---- violations: known-findings matching, minimisation, replay verification
        known = {k["signature"]: k for k in load_known() if k.get("property") == prop and k.get("status") == "open"}
        os.makedirs(os.path.join(VERIF, "replays"), exist_ok=True)
        n_viol = 0
        known_hit = []
        for sig in sorted(viols)[:MAX_SIGS * 3]:
            v = viols[sig]
            if sig in known:
                known_hit.append(sig)
                lines.append("KNOWN-FINDING: property=%s %s (%s; seen in %d runs, e.g. run %d)"
                             % (prop, sig, known[sig].get("description", "")[:300], repeat.get(sig, 1), v["run"]))
                continue
            n_viol += 1
            if n_viol > MAX_SIGS:
                continue
            rp_path = os.path.join(VERIF, "replays", "%s-s%d-r%d-%s.json" % (prop, master, v["run"], core.digest(sig)[:8]))
            item = {"seed": master, "run": v["run"], "scenario": v["scenario"], "violation": v["violation"]}
            inp = os.path.join(workdir, "min-in-%d.json" % n_viol)
            with open(inp, "w") as f:
                json.dump(item, f)
            env = dict(os.environ)
            env["PYTHONHASHSEED"] = str(v["hash_seed"])
            if v.get("no_minimise"):
                with open(rp_path, "w") as f:
                    json.dump({"property": prop, "seed": master, "run": v["run"], "hash_seed": v["hash_seed"],
                               "hash_seed_b": v.get("hash_seed_b"), "scenario": v["scenario"], "decisions": [],
                               "violation": v["violation"], "digest": ""}, f, indent=1)
                ok = True
            else:
                rc = subprocess.call([PY, CHECK, "--minimise", prop, "--in", inp, "--out", rp_path], env=env, cwd=VERIF,
                                     stdout=subprocess.DEVNULL)
                ok = rc == 0 and os.path.exists(rp_path)
                if ok:
                    rc2 = subprocess.call([PY, CHECK, prop, "--replay", rp_path, "--strict"], env=env, cwd=VERIF,
                                          stdout=subprocess.DEVNULL)
                    if rc2 != 1:
                        errors.append("replay of %s in a fresh interpreter did not reproduce exactly (rc=%s)" % (rp_path, rc2))
                else:
                    errors.append("minimisation failed for %s" % sig)
                    with open(rp_path, "w") as f:
                        json.dump({"property": prop, "seed": master, "run": v["run"], "hash_seed": v["hash_seed"],
                                   "scenario": v["scenario"], "decisions": v["decisions"], "violation": v["violation"],
                                   "digest": v["digest"]}, f, indent=1)
            lines.append("violation: %s (in %d runs; first run %d)\n    %s" % (sig, repeat.get(sig, 1), v["run"],
                         v["violation"]["detail"].replace("\n", "\n    ")[:1200]))
            lines.append("VIOLATION property=%s replay=%s" % (prop, rp_path))
        if n_viol:
            status = 1
        if errors:
            status = 2
        wall = time.time() - t0
        # ---- evidence
        zero_probes = [k for k in getattr(mod, "PROBES", []) if not agg["probes"].get(k)]
        ev = {
            "property_id": prop, "tier": tier, "seed": master, "level": mod.LEVEL,
            "coverage": {
                "evaluations": agg["evaluations"],
                "distinct_nontrivial": len(nontrivial),
                "rule": mod.RULE,
                "samples": samples[:3],
                "exhaustive": False,
                "distinct_histories": len(digests),
                "distinct_schedules": len(scheds),
                "distinct_states": len(states),
                "steps": agg["steps"],
                "simulated_seconds": round(agg["sim_s"], 3),
                "runs_per_hour": int(agg["evaluations"] / max(wall, 1e-6) * 3600),
                "fault_counts_fired": agg["faults"],
                "probe_counts": agg["probes"],
                "probes_stuck_at_zero": zero_probes,
                "hash_seeds": sorted({int(results[k]["hash_seed"]) for k in results} |
                                     {int(results2[k]["hash_seed"]) for k in results2}),
                "hash_variants": variants,
                "components": mod.COMPONENTS,
                "determinism_selftest": det,
                "known_findings_matched": known_hit,
                "violation_signatures": sorted(viols),
                "harness_errors": errors[:5],
                "repo": repo_path(),
            },
            "assumptions": mod.ASSUMPTIONS,
            "wall_s": round(wall, 2),
            "violations": n_viol,
        }
        extra = getattr(mod, "evidence_extra", None)
        if extra:
            ev["coverage"].update(extra(tier))
        evdir = os.environ.get("VERIF_EVIDENCE_DIR") or os.path.join(VERIF, "evidence")
        os.makedirs(evdir, exist_ok=True)
        if not os.environ.get("VERIF_NO_EVIDENCE"):
            with open(os.path.join(evdir, "%s.json" % prop), "w") as f:
                json.dump(ev, f, indent=1, sort_keys=True)
        print("[%s] %d runs, %d distinct histories (%d non-trivial), %d steps, %.1f simulated s, %.1f s wall, faults fired %s"
              % (prop, agg["evaluations"], len(digests), len(nontrivial), agg["steps"], agg["sim_s"], wall,
                 json.dumps(agg["faults"], sort_keys=True)))
        print("[%s] probes %s" % (prop, json.dumps(agg["probes"], sort_keys=True)))
        if zero_probes:
            print("[%s] WARNING probes stuck at zero: %s" % (prop, zero_probes))
        print("[%s] determinism self-test: %s" % (prop, json.dumps(det, sort_keys=True)))
        for ln in lines:
            print(ln)
        for e in errors[:10]:
            print("HARNESS-ERROR %s" % e)
        if status == 0:
            print("[%s] OK: property held on everything explored" % prop)
    finally:
        shutil.rmtree(workdir, ignore_errors=True)
    return status


def main(argv):
    import argparse
    ap = argparse.ArgumentParser()
    ap.add_argument("prop", nargs="?")
    ap.add_argument("--tier", default=os.environ.get("VERIF_TIER", "quick"))
    ap.add_argument("--seed", type=int, default=int(os.environ.get("VERIF_SEED", "0") or 0))
    ap.add_argument("--replay")
    ap.add_argument("--strict", action="store_true")
    ap.add_argument("--worker")
    ap.add_argument("--shard", type=int)
    ap.add_argument("--variant", type=int, default=0)
    ap.add_argument("--only")
    ap.add_argument("--out")
    ap.add_argument("--rdigest")
    ap.add_argument("--minimise")
    ap.add_argument("--in", dest="inp")
    a = ap.parse_args(argv)
    if a.worker:
        only = set(int(x) for x in a.only.split(",")) if a.only else None
        return worker_main(a.worker, a.shard, a.tier, a.seed, a.out, a.variant, only)
    if a.minimise:
        return minimise_main(a.minimise, a.inp, a.out)
    if not a.prop:
        ap.error("property id required")
    prop = a.prop.upper()
    if a.rdigest:
        with open(a.rdigest) as f:
            rp = json.load(f)
        print(load_check(prop).execute(rp["scenario"], script=rp.get("decisions") or None).get("rdigest", ""))
        return 0
    if a.replay:
        return replay_main(prop, a.replay, a.strict)
    if a.tier not in ("quick", "thorough"):
        a.tier = "quick"
    return check_main(prop, a.tier, a.seed)
