"""File-system interposition ("simfs").

Real files in a per-run scratch directory with a thin deterministic layer in front.  The layer
wraps builtins.open / io.open and a set of os functions process-wide, but acts only for threads
that are simulated processes and for paths under the registered roots; everything else passes
straight through to the real functions.  Each intercepted operation is a yield point of the
scheduler (sim.sched) *before* its effect, so a kill at step k means "operation k never happened".

Writes are split into chunks of a per-run size; every chunk is its own step and is flushed to the
real file when its step executes, so a kill between chunks leaves exactly the prefix (torn / short
write); a kill with a `torn` fraction additionally delivers a prefix of the pending chunk.
shutil's sendfile fast path is switched off and COPY_BUFSIZE is a per-run knob, so the *real*
shutil.copy/copy2/copyfile run through the wrapped open in observable write steps.
"""
import builtins
import errno as _errno
import io
import os
import shutil

from .sched import ProcessKilled

_real = {
    "open": builtins.open, "io_open": io.open,
    "mkdir": os.mkdir, "replace": os.replace, "rename": os.rename, "remove": os.remove,
    "unlink": os.unlink, "rmdir": os.rmdir, "stat": os.stat, "lstat": os.lstat, "chmod": os.chmod,
    "utime": os.utime, "listdir": os.listdir, "scandir": os.scandir, "link": os.link,
    "symlink": os.symlink, "truncate": os.truncate,
}
real_open = _real["open"]
real_listdir = _real["listdir"]
real_stat = _real["stat"]


class _ScandirResult:
    def __init__(self, entries):
        self._entries = entries
        self._i = 0

    def __iter__(self):
        return self

    def __next__(self):
        if self._i >= len(self._entries):
            raise StopIteration
        e = self._entries[self._i]
        self._i += 1
        return e

    def close(self):
        self._i = len(self._entries)

    def __enter__(self):
        return self

    def __exit__(self, *a):
        self.close()
        return False


class _WriteProxy:
    """Proxy around a real file object opened for writing; write() is chunked into steps."""

    def __init__(self, fs, f, rel, text):
        self.__dict__["_fs"] = fs
        self.__dict__["_f"] = f
        self.__dict__["_rel"] = rel
        self.__dict__["_text"] = text
        self.__dict__["_buf"] = []          # user-space buffer of a BufferedWriter / TextIOWrapper
        self.__dict__["_buflen"] = 0

    def write(self, data):
        """Like Python's buffered writers: small writes collect in a user-space buffer (lost if the process is
        killed before flush/close); once the buffer reaches the buffer size everything is handed to the OS."""
        n = len(data)
        if n == 0:
            return 0
        p = self._fs.sim.current()
        if p is not None and p.dead:
            raise ProcessKilled()
        self._buf.append(data)
        self.__dict__["_buflen"] = self._buflen + n
        if self._buflen >= self._fs.buffer_size:
            self._drain()
        return n

    def _drain(self):
        if not self._buf:
            return
        data = ("" if self._text else b"").join(self._buf)
        self.__dict__["_buf"] = []
        self.__dict__["_buflen"] = 0
        self._deliver(data)

    def _deliver(self, data):
        fs, f = self._fs, self._f
        n = len(data)
        chunk = fs.chunk
        pos = 0
        while pos < n:
            part = data[pos:pos + chunk]
            try:
                fs._step("write", self._rel, len(part), mutating=True)
            except ProcessKilled:
                p = fs.sim.current()
                if p is not None and p.torn is not None:
                    k = int(len(part) * p.torn)
                    p.torn = None
                    if 0 < k < len(part):
                        f.write(part[:k])
                        f.flush()
                        fs.sim.record("torn-write", self._rel, k, "killed")
                        fs.counts["torn_prefix_delivered"] = fs.counts.get("torn_prefix_delivered", 0) + 1
                raise
            f.write(part)
            f.flush()
            fs.sim.record("write", self._rel, len(part))
            pos += len(part)
        return n

    def writelines(self, lines):
        for line in lines:
            self.write(line)

    def flush(self):
        p = self._fs.sim.current()
        if p is not None and p.dead:
            return
        self._drain()
        self._f.flush()

    def close(self):
        p = self._fs.sim.current()
        if not (p is not None and p.dead) and not self._f.closed:
            try:
                self._drain()                 # the final flush is a step like any other write: it can be killed
            except ProcessKilled:
                try:
                    self._f.close()
                except Exception:  # noqa
                    pass
                raise
        try:
            self._f.close()
        except Exception:  # noqa
            pass

    def truncate(self, size=None):
        self._drain()
        self._fs._step("ftruncate", self._rel, size, mutating=True)
        r = self._f.truncate(size) if size is not None else self._f.truncate()
        self._fs.sim.record("ftruncate", self._rel, size)
        return r

    @property
    def closed(self):
        return self._f.closed

    def __enter__(self):
        return self

    def __exit__(self, *a):
        self.close()
        return False

    def __iter__(self):
        return iter(self._f)

    def __getattr__(self, name):
        return getattr(self._f, name)

    def __setattr__(self, name, value):
        setattr(self._f, name, value)


class _ReadProxy:
    """Proxy around a real file object opened for reading; each read is a step (no effect)."""

    def __init__(self, fs, f, rel):
        self.__dict__["_fs"] = fs
        self.__dict__["_f"] = f
        self.__dict__["_rel"] = rel

    def read(self, *a):
        self._fs._step("read", self._rel, None)
        data = self._f.read(*a)
        self._fs.sim.record("read", self._rel, len(data))
        return data

    def readline(self, *a):
        self._fs._step("read", self._rel, None)
        return self._f.readline(*a)

    def readlines(self, *a):
        self._fs._step("read", self._rel, None)
        return self._f.readlines(*a)

    def close(self):
        try:
            self._f.close()
        except Exception:  # noqa
            pass

    @property
    def closed(self):
        return self._f.closed

    def __enter__(self):
        return self

    def __exit__(self, *a):
        self.close()
        return False

    def __iter__(self):
        return self

    def __next__(self):
        line = self.readline()
        if not line:
            raise StopIteration
        return line

    def __getattr__(self, name):
        return getattr(self._f, name)


class SimFS:
    def __init__(self, sim, roots, chunk=65536, copy_bufsize=65536, permute_listing=False,
                 proxy_reads=False, yield_stat=True, buffer_size=8192, devices=()):
        self.sim = sim
        self.roots = [os.path.realpath(r).rstrip("/") for r in roots]
        self.chunk = max(1, int(chunk))
        self.copy_bufsize = max(1, int(copy_bufsize))
        self.buffer_size = max(1, int(buffer_size))   # io.DEFAULT_BUFFER_SIZE of Python's buffered writers
        self.permute_listing = permute_listing
        self.proxy_reads = proxy_reads
        self.yield_stat = yield_stat
        # relative directory prefixes that are mount points of OTHER file systems: rename / replace / link across a
        # device boundary fails with EXDEV as it does between /tmp (tmpfs) and a home directory
        self.devices = tuple(d.strip("/") for d in devices)
        self.rel_filter = None      # optional canonicaliser of recorded names (e.g. masks parts derived from absolute paths)
        self.counts = {}
        self.write_set = set()      # rel paths mutated (any mutating op) - cleared by callers
        self._saved = None

    # ------------------------------------------------------------------ helpers
    def _rel(self, path):
        """Relative name under a root, or None when the path is not ours."""
        try:
            s = os.fspath(path)
        except TypeError:
            return None
        if isinstance(s, bytes):
            s = os.fsdecode(s)
        if not s.startswith("/"):
            s = os.path.join(os.getcwd(), s)
        s = os.path.normpath(s)
        for r in self.roots:
            if s == r:
                return "."
            if s.startswith(r + "/"):
                rel = s[len(r) + 1:]
                return self.rel_filter(rel) if self.rel_filter is not None else rel
        return None

    def _device(self, rel):
        for d in self.devices:
            if rel == d or rel.startswith(d + "/"):
                return d
        return ""

    def _mine(self, path):
        if self.sim.current() is None:
            return None
        return self._rel(path)

    def _step(self, op, rel, info, mutating=False):
        self.sim.yield_point(op, rel, info)
        self.counts[op] = self.counts.get(op, 0) + 1
        if mutating:
            p = self.sim.current()
            if p is not None and p.__dict__.get("io_error"):
                e = p.io_error
                p.io_error = None
                self.sim.record(op, rel, info, "OSError:%s" % _errno.errorcode.get(e, e))
                self.counts["io_error_raised"] = self.counts.get("io_error_raised", 0) + 1
                raise OSError(e, os.strerror(e), rel)
            self.write_set.add(rel)

    # ------------------------------------------------------------------ wrapped functions
    def _open(self, file, mode="r", *a, **kw):
        rel = self._mine(file) if not isinstance(file, int) else None
        if rel is None:
            return real_open(file, mode, *a, **kw)
        writing = any(c in mode for c in "wax+")
        self._step("open", rel, mode, mutating=writing)
        f = real_open(file, mode, *a, **kw)
        self.sim.record("open", rel, mode)
        if writing:
            return _WriteProxy(self, f, rel, "b" not in mode)
        if self.proxy_reads:
            return _ReadProxy(self, f, rel)
        return f

    def _wrap_path_op(self, name, mutating=True, two=False):
        real = _real[name]
        fs = self

        def wrapped(path, *a, **kw):
            rel = fs._mine(path) if not isinstance(path, int) else None
            rel2 = None
            if two and a:
                rel2 = fs._mine(a[0])
            if rel is None and rel2 is None:
                return real(path, *a, **kw)
            fs._step(name, rel if rel is not None else rel2, rel2 if two else None, mutating=mutating)
            if two and name != "symlink" and fs.devices and rel is not None and rel2 is not None \
                    and fs._device(rel) != fs._device(rel2):
                fs.counts["exdev_raised"] = fs.counts.get("exdev_raised", 0) + 1
                fs.sim.record(name, rel, rel2, "OSError:EXDEV")
                raise OSError(_errno.EXDEV, os.strerror(_errno.EXDEV), os.fspath(path), None, os.fspath(a[0]))
            if two and rel2 is not None:
                fs.write_set.add(rel2)
            r = real(path, *a, **kw)
            fs.sim.record(name, rel, rel2 if two else None)
            return r
        wrapped.__name__ = name
        return wrapped

    def _stat(self, path, *a, **kw):
        if self.yield_stat and not isinstance(path, int):
            rel = self._mine(path)
            if rel is not None:
                self._step("stat", rel, None)
        return _real["stat"](path, *a, **kw)

    def _listdir(self, path="."):
        rel = self._mine(path) if not isinstance(path, int) else None
        if rel is None:
            return _real["listdir"](path)
        self._step("listdir", rel, None)
        names = sorted(_real["listdir"](path))
        if self.permute_listing and len(names) > 1:
            names = self.sim.decider.permute("ls", names)
            self.counts["listing_permuted"] = self.counts.get("listing_permuted", 0) + 1
        self.sim.record("listdir", rel, len(names))
        return names

    def _scandir(self, path="."):
        rel = self._mine(path) if not isinstance(path, int) else None
        if rel is None:
            return _real["scandir"](path)
        self._step("scandir", rel, None)
        with _real["scandir"](path) as it:
            entries = sorted(it, key=lambda e: e.name)
        if self.permute_listing and len(entries) > 1:
            entries = self.sim.decider.permute("ls", entries)
            self.counts["listing_permuted"] = self.counts.get("listing_permuted", 0) + 1
        self.sim.record("scandir", rel, len(entries))
        return _ScandirResult(entries)

    # ------------------------------------------------------------------ install / uninstall
    def install(self):
        assert self._saved is None
        self._saved = {
            "sendfile": shutil._USE_CP_SENDFILE, "bufsize": shutil.COPY_BUFSIZE,
        }
        shutil._USE_CP_SENDFILE = False
        shutil.COPY_BUFSIZE = self.copy_bufsize
        builtins.open = self._open
        io.open = self._open
        for name in ("mkdir", "remove", "unlink", "rmdir", "chmod", "utime", "truncate"):
            setattr(os, name, self._wrap_path_op(name))
        for name in ("replace", "rename", "link", "symlink"):
            setattr(os, name, self._wrap_path_op(name, two=True))
        os.stat = self._stat
        os.listdir = self._listdir
        os.scandir = self._scandir
        return self

    def uninstall(self):
        if self._saved is None:
            return
        builtins.open = _real["open"]
        io.open = _real["io_open"]
        for name in ("mkdir", "remove", "unlink", "rmdir", "chmod", "utime", "truncate", "replace",
                     "rename", "link", "symlink", "stat", "listdir", "scandir"):
            setattr(os, name, _real[name])
        shutil._USE_CP_SENDFILE = self._saved["sendfile"]
        shutil.COPY_BUFSIZE = self._saved["bufsize"]
        self._saved = None

    def __enter__(self):
        return self.install()

    def __exit__(self, *a):
        self.uninstall()
        return False


def tree_state(root, with_bytes=False):
    """Deterministic snapshot of a directory tree: {relpath: (size, sha1) | 'dir'} using the real
    functions (for oracles; never goes through the simulator)."""
    import hashlib
    out = {}
    root = root.rstrip("/")
    stack = [root]
    while stack:
        d = stack.pop()
        try:
            names = sorted(_real["listdir"](d))
        except FileNotFoundError:
            continue
        for n in names:
            full = d + "/" + n
            rel = full[len(root) + 1:]
            try:
                st = _real["lstat"](full)
            except FileNotFoundError:
                continue
            import stat as _st
            if _st.S_ISDIR(st.st_mode):
                out[rel] = "dir"
                stack.append(full)
            else:
                with real_open(full, "rb") as f:
                    data = f.read()
                out[rel] = data if with_bytes else (len(data), hashlib.sha1(data).hexdigest())
    return out
