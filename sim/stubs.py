"""In-simulator stand-ins for the clock, the inter-process file lock and the network peer.

* FakeTimeModule    - replaces the `time` attribute of a module: time() reads the simulated clock,
                      sleep() parks the simulated process.
* FakeDatetime      - replaces a module's `datetime` class: now() derives from the simulated clock.
* LockWorld / FakePortalocker - flock model: one exclusive lock per path, owned by a simulated
                      process' Lock object; acquire() polls non-blocking every check_interval until
                      timeout (the clock starts after the first attempt, like portalocker) and then
                      raises AlreadyLocked (a LockException); released on release() or by the
                      simulated OS when the owner is killed.
* Peer              - simulated GitHub: serves directory listings and raw files of a configured
                      file set, or raises URLError when partitioned.
"""
import datetime as _dt
import time as _time
import io
import os
import json
import types
from hashlib import sha1
from urllib.error import URLError


class FakeTimeModule:
    """Stands in for the `time` module a library module imported.  `tz_west` is the simulated local time zone in
    seconds WEST of UTC (time.timezone); the host's real zone never shows through."""

    def __init__(self, sim, tz_west=0):
        self._sim = sim
        self.timezone = int(tz_west)
        self.altzone = int(tz_west)
        self.daylight = 0
        self.tzname = ("SIM", "SIM")

    def gmtime(self, secs=None):
        return _time.gmtime(self.time() if secs is None else secs)

    def localtime(self, secs=None):
        return _time.gmtime((self.time() if secs is None else secs) - self.timezone)

    def mktime(self, t):
        import calendar
        return float(calendar.timegm(t) + self.timezone)

    def strftime(self, fmt, t=None):
        return _time.strftime(fmt, self.localtime() if t is None else t)

    def ctime(self, secs=None):
        return _time.asctime(self.localtime(secs))

    def time_ns(self):
        return int(self.time() * 1e9)

    def time(self):
        t = self._sim.time()
        if self._sim.current() is not None:
            self._sim.record("clock-read", None, round(t, 6))
        return t

    def monotonic(self):
        return self._sim.monotonic()

    def perf_counter(self):
        return self._sim.monotonic()

    def sleep(self, d):
        self._sim.sleep(d)


def make_fake_datetime(sim):
    class FakeDatetime(_dt.datetime):
        @classmethod
        def now(cls, tz=None):
            return _dt.datetime.fromtimestamp(sim.time(), tz=_dt.timezone.utc).replace(tzinfo=tz)

        @classmethod
        def today(cls):
            return cls.now()
    return FakeDatetime


class LockException(Exception):
    pass


class AlreadyLocked(LockException):
    pass


class LockWorld:
    """The simulated OS' table of held file locks."""

    def __init__(self, sim, rel=None):
        self.sim = sim
        self.rel = rel or (lambda p: p)
        self.held = {}          # (st_dev, st_ino) of the locked open file -> [(pid, lock object, shared?)]
        self._aliases = {}
        self.contended = 0
        self.acquired = 0
        self.timeouts = 0
        sim.kill_hooks.append(self._on_kill)
        sim.exit_hooks.append(self._on_kill)      # a process that ends closes its files: its locks are released

    def alias(self, key):
        """Deterministic name for an inode (raw inode numbers differ between runs)."""
        if key not in self._aliases:
            self._aliases[key] = "ino#%d" % (len(self._aliases) + 1)
        return self._aliases[key]

    def _on_kill(self, proc):
        for key, holders in list(self.held.items()):
            for h in list(holders):
                if h[0] == proc.pid:
                    holders.remove(h)
                    self.sim.record("lock-freed-by-os", self.rel(h[1].filename), self.alias(key), None, pid=proc.pid)
            if not holders:
                del self.held[key]


LOCK_EX, LOCK_SH, LOCK_NB, LOCK_UN = 2, 1, 4, 8       # fcntl values, as portalocker.LockFlags


def make_fake_portalocker(world, default_timeout=5.0, default_check_interval=0.25):
    sim = world.sim
    import enum

    class LockFlags(enum.IntFlag):
        EXCLUSIVE = LOCK_EX
        SHARED = LOCK_SH
        NON_BLOCKING = LOCK_NB
        UNBLOCK = LOCK_UN

    class Lock:
        def __init__(self, filename, mode="a", timeout=None, check_interval=None,
                     fail_when_locked=False, flags=None, **kw):
            self.filename = str(filename)
            self.timeout = default_timeout if timeout is None else timeout
            self.check_interval = default_check_interval if check_interval is None else check_interval
            self.fail_when_locked = fail_when_locked
            # flock semantics: LOCK_SH holders may share, LOCK_EX excludes everybody (default, like portalocker)
            self.shared = bool(flags is not None and int(flags) & LOCK_SH)
            self.fh = None

        def acquire(self, timeout=None, check_interval=None, fail_when_locked=None):
            timeout = self.timeout if timeout is None else timeout
            check_interval = self.check_interval if check_interval is None else check_interval
            fail = self.fail_when_locked if fail_when_locked is None else fail_when_locked
            p = sim.current()
            pid = p.pid if p is not None else -1
            if self.fh is not None:
                return self.fh
            # like portalocker: open (creating) the lock file ONCE, then retry a non-blocking flock on that open
            # file description; the lock belongs to the inode behind it, not to the path
            fh = open(self.filename, "a")
            try:
                st = os.fstat(fh.fileno())
                key = (st.st_dev, st.st_ino)
                alias = world.alias(key)
                start = None
                while True:
                    sim.yield_point("lock-try", world.rel(self.filename), alias)
                    holders = world.held.get(key, [])
                    if not holders or (self.shared and all(h[2] for h in holders)):
                        world.held.setdefault(key, []).append((pid, self, self.shared))
                        world.acquired += 1
                        self.fh = fh
                        self._key = key
                        sim.record("lock-acquired", world.rel(self.filename), alias)
                        return self.fh
                    world.contended += 1
                    sim.record("lock-busy", world.rel(self.filename), alias)
                    if start is None:
                        start = sim.monotonic()       # like portalocker: timeouts run on a monotonic clock
                    if fail or sim.monotonic() - start >= timeout:
                        world.timeouts += 1
                        raise AlreadyLocked("already locked: %s" % self.filename)
                    sim.sleep(check_interval)
            except BaseException:
                if self.fh is None:
                    try:
                        fh.close()
                    except Exception:  # noqa
                        pass
                raise

        def release(self):
            if self.fh is None:
                return
            sim.yield_point("lock-release", world.rel(self.filename), None)
            holders = world.held.get(self._key, [])
            mine = [h for h in holders if h[1] is self]
            if mine:
                holders.remove(mine[0])
                if not holders:
                    world.held.pop(self._key, None)
                sim.record("lock-released", world.rel(self.filename), world.alias(self._key))
            try:
                self.fh.close()
            except Exception:  # noqa
                pass
            self.fh = None

        def __enter__(self):
            return self.acquire()

        def __exit__(self, *a):
            self.release()
            return False

    mod = types.ModuleType("portalocker")
    mod.Lock = Lock
    mod.LockFlags = LockFlags
    mod.LOCK_EX, mod.LOCK_SH, mod.LOCK_NB, mod.LOCK_UN = (LockFlags.EXCLUSIVE, LockFlags.SHARED, LockFlags.NON_BLOCKING,
                                                          LockFlags.UNBLOCK)
    mod.constants = types.SimpleNamespace(LockFlags=LockFlags, LOCK_EX=LockFlags.EXCLUSIVE, LOCK_SH=LockFlags.SHARED,
                                          LOCK_NB=LockFlags.NON_BLOCKING, LOCK_UN=LockFlags.UNBLOCK)
    mod.LockException = LockException
    mod.AlreadyLocked = AlreadyLocked
    mod.exceptions = types.SimpleNamespace(LockException=LockException, AlreadyLocked=AlreadyLocked,
                                           BaseLockException=LockException)
    return mod


class _Resp:
    def __init__(self, data):
        self._data = data

    def read(self):
        return self._data


def git_blob_sha1(data):
    h = sha1()
    h.update(("blob %d\0" % len(data)).encode("utf-8"))
    h.update(data)
    return h.hexdigest()


class Peer:
    """Simulated GitHub API + raw content host for hed-schemas.

    files: {"standard": {filename: bytes}, "libs": {libname: {filename: bytes}}}
    """
    STD = "https://api.github.com/repos/hed-standard/hed-schemas/contents/standard_schema"
    LIB = "https://api.github.com/repos/hed-standard/hed-schemas/contents/library_schemas"
    RAW = "https://raw.sim/"

    def __init__(self, sim, files):
        self.sim = sim
        self.files = files
        self.up = True
        self.requests = []

    def _entry(self, name, data):
        return {"type": "file", "name": name, "sha": git_blob_sha1(data),
                "download_url": self.RAW + name}

    def make_url_request(self, url, try_authenticate=True):
        self.sim.yield_point("net", url[-60:], None)
        self.requests.append((self.sim.seq, round(self.sim.time(), 6), url))
        self.sim.record("net", url[-60:], None, "up" if self.up else "down")
        if not self.up:
            raise URLError("simulated partition")
        if url == self.STD + "/hedxml":
            return _Resp(json.dumps([self._entry(n, d) for n, d in sorted(self.files["standard"].items())]).encode())
        if url == self.LIB:
            return _Resp(json.dumps([{"type": "dir", "name": lib} for lib in sorted(self.files["libs"])]).encode())
        if url.startswith(self.LIB + "/") and url.endswith("/hedxml"):
            lib = url[len(self.LIB) + 1:-len("/hedxml")]
            if lib in self.files["libs"]:
                return _Resp(json.dumps([self._entry(n, d) for n, d in sorted(self.files["libs"][lib].items())]).encode())
        if url.startswith(self.RAW):
            name = url[len(self.RAW):]
            for group in [self.files["standard"]] + list(self.files["libs"].values()):
                if name in group:
                    return _Resp(group[name])
        raise URLError("404 (simulated): " + url)


class NameSequence:
    """Deterministic replacement for tempfile's random name sequence."""

    def __init__(self, tag="t"):
        self.n = 0
        self.tag = tag

    def __iter__(self):
        return self

    def __next__(self):
        self.n += 1
        return "%s%06d" % (self.tag, self.n)


# ------------------------------------------------------------------------------------------ threads inside the code
class SimFuture:
    """Future of a task handed to the simulated pool."""

    def __init__(self, pool, fn, args, kwargs):
        self._pool, self._fn, self._args, self._kwargs = pool, fn, args, kwargs
        self._state = "pending"
        self._result = None
        self._exc = None
        self._callbacks = []

    def _run(self):
        if self._state != "pending":
            return
        self._state = "running"
        try:
            self._result = self._fn(*self._args, **self._kwargs)
            self._state = "done"
        except Exception as e:  # noqa - kept in the future, as a worker thread would (BaseException = process death goes on)
            self._exc = e
            self._state = "failed"
        for cb in self._callbacks:
            try:
                cb(self)
            except Exception:  # noqa
                pass

    def result(self, timeout=None):
        self._pool._run_until(self)
        if self._state == "cancelled":
            import concurrent.futures as cf
            raise cf.CancelledError()
        if self._exc is not None:
            raise self._exc
        return self._result

    def exception(self, timeout=None):
        self._pool._run_until(self)
        return self._exc

    def done(self):
        return self._state in ("done", "failed", "cancelled")

    def running(self):
        return self._state == "running"

    def cancelled(self):
        return self._state == "cancelled"

    def cancel(self):
        if self._state == "pending":
            self._state = "cancelled"
            return True
        return self._state == "cancelled"

    def add_done_callback(self, fn):
        if self.done():
            fn(self)
        else:
            self._callbacks.append(fn)


def make_sim_thread_seams(sim):
    """Stand-ins for concurrent.futures.ThreadPoolExecutor and threading.Thread as seen by a module under test.  Worker
    threads would run outside the simulator (their file operations could neither be stepped nor hit by a fault), so tasks
    are kept and executed by the submitting simulated process itself - at a seeded moment: right at submit or when the
    pool is drained / the thread is joined, in a seeded order.  Each such execution is a legal schedule of the real pool."""
    counts = {"tasks": 0, "deferred": 0}

    class SimThreadPool:
        def __init__(self, max_workers=None, thread_name_prefix="", initializer=None, initargs=()):
            self._pending = []
            self._shutdown = False
            if initializer is not None:
                initializer(*initargs)

        def submit(self, fn, /, *args, **kwargs):
            if self._shutdown:
                raise RuntimeError("cannot schedule new futures after shutdown")
            f = SimFuture(self, fn, args, kwargs)
            counts["tasks"] += 1
            if sim.decider.choose("pool-submit", 2) == 0:
                f._run()
            else:
                counts["deferred"] += 1
                self._pending.append(f)
            return f

        def map(self, fn, *iterables, timeout=None, chunksize=1):
            fs = [self.submit(fn, *args) for args in zip(*iterables)]

            def gen():
                for f in fs:
                    yield f.result()
            return gen()

        def _run_until(self, fut):
            while fut._state == "pending" and self._pending:
                i = sim.decider.choose("pool-next", len(self._pending)) if len(self._pending) > 1 else 0
                self._pending.pop(i)._run()

        def shutdown(self, wait=True, *, cancel_futures=False):
            self._shutdown = True
            if cancel_futures:
                for f in self._pending:
                    f.cancel()
                self._pending = []
            while self._pending:
                i = sim.decider.choose("pool-next", len(self._pending)) if len(self._pending) > 1 else 0
                self._pending.pop(i)._run()

        def __enter__(self):
            return self

        def __exit__(self, *a):
            self.shutdown(wait=True)
            return False

    class SimThread:
        def __init__(self, group=None, target=None, name=None, args=(), kwargs=None, *, daemon=None):
            self._target, self._args, self._kwargs = target, args, kwargs or {}
            self.name = name or "SimThread"
            self.daemon = bool(daemon)
            self._state = "new"

        def run(self):
            if self._target is not None:
                self._target(*self._args, **self._kwargs)

        def _go(self):
            if self._state == "started":
                self._state = "running"
                try:
                    self.run()
                except Exception:  # noqa - an exception ends the thread, not the process
                    pass
                self._state = "finished"

        def start(self):
            self._state = "started"
            counts["tasks"] += 1
            if sim.decider.choose("thread-start", 2) == 0:
                self._go()
            else:
                counts["deferred"] += 1

        def join(self, timeout=None):
            self._go()

        def is_alive(self):
            return self._state in ("started", "running")

    return SimThreadPool, SimThread, counts


def bind_thread_seams(modules, sim):
    """Rebind ThreadPoolExecutor / Thread wherever a module under test holds them; returns (undo list, counters)."""
    import concurrent.futures as cf
    import threading as th
    Pool, Thread, counts = make_sim_thread_seams(sim)
    undo = []
    fake_cf = types.SimpleNamespace(**{k: getattr(cf, k) for k in dir(cf) if not k.startswith("_")})
    fake_cf.ThreadPoolExecutor = Pool
    fake_th = types.SimpleNamespace(**{k: getattr(th, k) for k in dir(th) if not k.startswith("_")})
    fake_th.Thread = Thread
    for m in modules:
        for name, v in list(vars(m).items()):
            new = None
            if v is cf.ThreadPoolExecutor:
                new = Pool
            elif v is th.Thread:
                new = Thread
            elif v is cf:
                new = fake_cf
            elif v is th:
                new = fake_th
            if new is not None:
                undo.append((m, name, v))
                setattr(m, name, new)
    return undo, counts
