"""Seeded scheduler over simulated processes.

A simulated process is a real Python thread that only runs while it holds the baton.  Every
intercepted operation is a yield point: the thread records the pending operation, gives the baton
back to the scheduler (the thread that called Sim.run) and parks.  The scheduler picks the next
runnable process through the Decider - the only nondeterministic choice - or applies a fault to it.

Faults are keyed by (pid, k) where k is the index of the process's k-th yield point, so they stay
meaningful while a scenario is shrunk:
  kill   - the process dies *before* the pending operation takes effect (optionally, for a write,
           after a torn prefix of the pending chunk reached the file); every later interposed
           operation of that thread raises ProcessKilled again without effect (SIGKILL semantics:
           finally-blocks and __exit__ handlers cannot touch the world);
  stall  - the process is parked for a simulated duration;
  jump   - the simulated clock is moved by delta just before the operation.
"""
import threading


class ProcessKilled(BaseException):
    """Unwinds a killed simulated process.  BaseException so that no `except Exception` eats it."""


class SimAbort(BaseException):
    """Unwinds all processes when the step cap is reached."""


class Proc:
    def __init__(self, pid, name, fn, op_dur):
        self.pid = pid
        self.name = name
        self.fn = fn
        self.op_dur = op_dur
        self.sem = threading.Semaphore(0)
        self.state = "ready"      # ready | done | killed | failed | aborted
        self.wake = 0.0
        self.local_step = 0       # index of the next resume: 0 = process start, k = k-th yield point
        self.pending = None
        self.dead = False
        self.abort = False
        self.torn = None
        self.io_error = None
        self.trace = [None]        # trace[k] = pending operation at the k-th resume (k=0: process start)
        self.result = None
        self.exc = None
        self.thread = None
        self.started_at = None
        self.ended_at = None
        self.end_seq = None


class Sim:
    def __init__(self, decider, faults=(), max_steps=5000, start_time=1.7e9):
        self.decider = decider
        self.now = float(start_time)      # wall clock (subject to injected jumps)
        self.mono = 0.0                   # monotonic clock: sleeps, wake-ups and lock timeouts run on it
        self.exit_hooks = []              # callables(proc) run by the "OS" when a process ends normally
        self.seq = 0
        self.steps = 0
        self.max_steps = max_steps
        self.procs = []
        self.history = []
        self.main_sem = threading.Semaphore(0)
        self.faults = {}
        for f in faults:
            self.faults.setdefault((f["pid"], f["step"]), []).append(dict(f))
        self.fired = {}            # fault kind -> count actually applied
        self.kill_hooks = []       # callables(proc) run by the "OS" when a process dies
        self.switch_in_hooks = []  # callables(proc) run just before a process gets the baton
        self.switch_out_hooks = []  # callables(proc) run right after it handed the baton back
        self.truncated = False
        self.schedule = []         # pid per step, for reporting
        self._tl = threading.local()

    # ----------------------------------------------------------------- process side
    def current(self):
        return getattr(self._tl, "proc", None)

    def record(self, op, path=None, info=None, outcome=None, pid=None):
        p = self.current()
        if p is not None and (p.dead or p.abort):
            return self.seq          # post-mortem unwinding of a killed process is not part of the world
        self.seq += 1
        self.history.append((self.seq, p.pid if p is not None else (pid if pid is not None else -1),
                             round(self.now, 6), op, path, info, outcome))
        return self.seq

    def yield_point(self, op, path=None, info=None):
        """Called by interposed operations on a simulated-process thread *before* their effect."""
        p = self.current()
        if p is None:
            return
        if p.dead:
            raise ProcessKilled()
        if p.abort:
            raise SimAbort()
        p.pending = (op, path, info)
        p.trace.append(p.pending)
        self.main_sem.release()
        p.sem.acquire()
        p.local_step += 1
        if p.dead:
            raise ProcessKilled()
        if p.abort:
            raise SimAbort()

    def time(self):
        return self.now

    def monotonic(self):
        return self.mono

    def _advance(self, d):
        self.now += d
        self.mono += d

    def sleep(self, d):
        p = self.current()
        if p is None:
            self._advance(max(0.0, d))
            return
        p.wake = self.mono + max(0.0, d)
        self.yield_point("sleep", None, round(d, 6))

    # ----------------------------------------------------------------- scheduler side
    def spawn(self, name, fn, start_at=None, op_dur=0.001):
        p = Proc(len(self.procs), name, fn, op_dur)
        # start_at is given on the wall clock of the caller; convert to the monotonic clock
        p.wake = self.mono if start_at is None else self.mono + max(0.0, start_at - self.now)
        self.procs.append(p)
        t = threading.Thread(target=self._thread_main, args=(p,), daemon=True)
        p.thread = t
        t.start()
        return p

    def _thread_main(self, p):
        self._tl.proc = p
        p.sem.acquire()
        p.local_step += 1          # the start of the process is its step 0
        p.started_at = self.now
        try:
            if p.dead:
                raise ProcessKilled()
            if p.abort:
                raise SimAbort()
            p.result = p.fn()
            p.state = "done"
        except ProcessKilled:
            p.state = "killed"
        except SimAbort:
            p.state = "aborted"
        except BaseException as e:  # noqa - the process "crashed" with an exception
            if p.dead:
                p.state = "killed"
            else:
                p.exc = e
                p.state = "failed"
        finally:
            p.ended_at = self.now
            p.end_seq = self.seq
            if p.state in ("done", "failed"):
                for hook in self.exit_hooks:
                    try:
                        hook(p)
                    except Exception:  # noqa
                        pass
            self.main_sem.release()

    def _kill(self, p, torn=None):
        p.dead = True
        p.torn = torn
        self.seq += 1
        self.history.append((self.seq, p.pid, round(self.now, 6), "KILL", None,
                             {"pending": list(p.pending) if p.pending else None, "torn": torn}, None))
        for hook in self.kill_hooks:
            hook(p)

    def run(self):
        """Run until every process has finished (quiescence), the step cap, or nothing can run."""
        while True:
            live = [p for p in self.procs if p.state == "ready"]
            if not live:
                break
            runnable = [p for p in live if p.wake <= self.mono]
            if not runnable:
                self._advance(min(p.wake for p in live) - self.mono)
                continue
            if self.steps >= self.max_steps:
                self.truncated = True
                for p in live:
                    p.abort = True
                    p.sem.release()
                    self.main_sem.acquire()
                break
            i = self.decider.choose("sched", len(runnable)) if len(runnable) > 1 else 0
            p = runnable[i]
            stalled = False
            fl = self.faults.get((p.pid, p.local_step), ())
            if any(f["kind"] == "kill" and not f.get("_done") for f in fl):
                fl = [f for f in fl if f["kind"] == "kill"]      # death wins over anything else at this step
            for f in fl:
                if f.get("_done"):
                    continue
                f["_done"] = True
                kind = f["kind"]
                self.fired[kind] = self.fired.get(kind, 0) + 1
                if kind == "stall":
                    p.wake = self.mono + f["dur"]
                    self.seq += 1
                    self.history.append((self.seq, p.pid, round(self.now, 6), "STALL", None, f["dur"], None))
                    stalled = True
                    break
                if kind == "jump":
                    self.now += f["delta"]
                    self.seq += 1
                    self.history.append((self.seq, p.pid, round(self.now, 6), "JUMP", None, f["delta"], None))
                elif kind == "kill":
                    self._kill(p, f.get("torn"))
                elif kind == "ioerr":
                    p.io_error = f["errno"]
            if stalled:
                continue
            self.steps += 1
            self.schedule.append(p.pid)
            self._advance(p.op_dur)
            for h in self.switch_in_hooks:
                h(p)
            p.sem.release()
            self.main_sem.acquire()
            for h in self.switch_out_hooks:
                h(p)
        return self

    def run_one(self, name, fn, op_dur=0.001):
        """Convenience: spawn one process and run to quiescence (sequential 'CLI invocation')."""
        p = self.spawn(name, fn, op_dur=op_dur)
        self.run()
        return p
