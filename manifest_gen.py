#!/usr/bin/env python3
"""Regenerates MANIFEST.json from the tables below (kept in one place so it stays valid)."""
import json

BASE_CMD = ("cd /repo && /venv/bin/python -m pytest -ra -q -p no:cacheprovider --timeout=900 "
            "--continue-on-collection-errors")
NA = json.load(open("MANIFEST.json"))["not_applicable"]
TECH = "deterministic simulation with fault injection: "
CHECKS = {
 "C09": ("exploration",
   "History machine over live HedString objects sharing one DefinitionDict: a seeded, shrinkable sequence of expand / shrink / copy / validate / render / sort / remove_definitions / column-wise variants is executed on the real objects and in lock-step on an immutable reference tree; after every step every live object (not only the one operated on) is compared with its model tree, unordered and case-folded, plus a case-exact comparison of the placeholder values that exist in two letter cases; Def-expand validation is judged against the model in every expansion state; every 8th run checks the dictionary's acceptance rules. Seeded sampling of histories and worlds: evidence, not proof.",
   "Trusted: CPython, the independent text splitter and reference tree model, bundled schema 8.3.0; sibling order and letter case (except that of case-variant placeholder values) are not compared; shrink is modelled as blind (as documented).",
   TECH + "seeded operation-history search with lock-step reference model (axis: call history on shared mutable objects)", "DESIGN.md 3.4, 4/C09"),
 "C18": ("fault_enumeration",
   "Every CLI invocation / API call of the real BackupManager, run_remodel_backup, run_remodel_restore and run_remodel runs as a simulated process over an interposed file system on a generated data tree. Crash sub-batch: every distinct crash state of one backup creation is enumerated per scenario (kill before each mutating file-system step, after the last, and a torn variant of chunk writes; EIO/ENOSPC variants in thorough mode) and a fresh manager must refuse / not list / list complete. History sub-batch: seeded sequences of backup, modify (incl. size-preserving edits with scenario-controlled file times), delete, add, remodel (twice, with edits between; runs killed at a seeded step), restore[tasks] (also killed), API-level dispatch from one or two backups in one process, reopen - on trees with decomposed-unicode and ancestor-like directory names, given directly or through a symbolic link - judged step by step against a {name: {path: bytes}} reference model (restore exactness, confinement, idempotence, isolation, no-overwrite). Scenarios are sampled; the crash dimension inside each scenario is complete up to chunk sampling in long copies.",
   "Trusted: CPython, tmpfs POSIX semantics, pandas read/write determinism, the reference model; crash model is process kill (delivered write steps persist); which files a CLI selects is not judged.",
   TECH + "crash-point enumeration over interposed file system + operation-history oracle against a reference model", "DESIGN.md 3, 4/C18"),
 "C19": ("fault_enumeration",
   "Deterministic simulation of 1-6 simulated processes (populators, loaders, refreshers, lock holders) running the real hed_cache/hed_cache_lock/hed_schema_io code on one cache directory under a seeded scheduler at file-operation granularity, with process kills at every step (complete enumeration of the crash points, incl. torn variants of each write, of one population scenario; seeded sampling elsewhere), stalls (also a holder that hangs and is then killed), clock jumps, I/O errors, network partitions, directory-listing permutations and per-run environment knobs (time zone, temp directory on another device, cache reached through a symbolic link); every simulated process has its own pid and its own module-level state; oracles O-load, O-final, O-mutex, O-timeout (incl. bounded liveness: every phase ends within the step budget), O-interval (file-based and against the oracle's own record) over the recorded history. Sampling of schedules and scenarios, so evidence not proof.",
   "Trusted: CPython, tmpfs POSIX semantics (atomic rename), flock stub with shared/exclusive flags (cross-checked against real portalocker at worker start), simulated clock/peer, per-content-hash memo of the XML parser for byte-identical bundled files; crash model is process kill (no power-loss reordering).",
   TECH + "seeded scheduler + crash-point enumeration + history oracles", "DESIGN.md 3, 4/C19"),
}
try:
    from manifest_more import MORE
    CHECKS.update(MORE)
except ImportError:
    pass

m = {
 "version": 1,
 "setup_cmd": "/venv/bin/python -c \"import hed, pandas, numpy, portalocker; print('ok')\"",
 "hooks": {"guard": "HED_PYTHON_VERIF",
           "enable": "no source hooks: the simulator interposes at Python module seams (builtins.open, os, shutil, time, datetime, portalocker, make_url_request) from outside /repo",
           "baseline_off_cmd": BASE_CMD, "source_commits": [], "add_only": True},
 "engines": [{"name": "hed-dst", "path": "/verif/sim", "serves_properties": sorted(CHECKS),
              "kind_free_text": "deterministic simulation with fault injection: seeded scheduler over baton-passing simulated processes, file-system interposition with crash/torn-write faults, simulated clock/lock/network, operation-history machines with lock-step reference models, ddmin minimisation and exact replay; one fresh interpreter per logical shard with a seed-derived PYTHONHASHSEED"}],
 "checks": [],
 "notes": "See DESIGN.md. ./check <id> --tier quick|thorough [--seed N]; ./check <id> --replay <file>. known_findings.json lists repaired (status fixed) and open findings.",
 "not_applicable": [e for e in NA if e["property_id"] not in CHECKS],
}
for pid in sorted(CHECKS):
    level, text, note, tech, ref = CHECKS[pid]
    m["checks"].append({
        "property_id": pid, "quick_cmd": "./check %s --tier quick" % pid, "thorough_cmd": "./check %s --tier thorough" % pid,
        "evidence_file": "/verif/evidence/%s.json" % pid, "replay_cmd_template": "./check %s --replay {path}" % pid,
        "engine": "hed-dst", "level_claimed": {"category": level, "text": text, "design_ref": ref},
        "level_note": note, "technique": tech})
json.dump(m, open("MANIFEST.json", "w"), indent=1)
print("MANIFEST.json: %d checks, %d not applicable" % (len(m["checks"]), len(m["not_applicable"])))
