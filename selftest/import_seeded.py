#!/usr/bin/env python3
"""import_seeded.py <dir> <PROP> <caught_by: text>  -- copies a confirmed seeded change into /verif/seeded/<id>/ with meta.json"""
import json, os, shutil, sys
src, prop, caught = sys.argv[1].rstrip('/'), sys.argv[2], sys.argv[3]
name = os.path.basename(src)
dst = os.path.join('/verif/seeded', name)
os.makedirs(dst, exist_ok=True)
for f in os.listdir(src):
    if os.path.isfile(os.path.join(src, f)):
        shutil.copy(os.path.join(src, f), os.path.join(dst, f))
readme = open(os.path.join(src, 'README.md')).read() if os.path.exists(os.path.join(src, 'README.md')) else ''
meta = {"property": prop, "id": name, "needs_to_manifest": sys.argv[4] if len(sys.argv) > 4 else readme[:600],
        "confirmed": "patch applies on /repo HEAD with git apply; demo.py exits non-zero with the patch and 0 without (run by the author agent and re-run here); baseline stable tests pass with the patch (author agent's full run)",
        "ran": "selftest/try_patch.sh %s/patch.diff %s" % (dst, prop), "detected_by": caught}
json.dump(meta, open(os.path.join(dst, 'meta.json'), 'w'), indent=1)
print("imported", dst)
