#!/bin/bash
# usage: [WT=/tmp/wt-try] try_patch.sh <patch.diff> <PROP> [seed]  -- applies the patch in a scratch worktree of /repo (never
# /repo itself, background runs use it), runs the quick check against it with VERIF_REPO, then reverts the worktree.
set -u
P=$(readlink -f "$1"); PROP=$2; SEED=${3:-0}
WT=${WT:-/tmp/wt-try}
LOG=/tmp/try_$(basename $(dirname "$P"))_$PROP.log
if [ ! -d $WT ]; then git -C /repo worktree add -q --detach $WT HEAD || exit 2; fi
cd $WT && git checkout -q -- . && git checkout -q --detach $(git -C /repo rev-parse HEAD) || exit 2
git apply "$P" || { echo "patch does not apply"; exit 2; }
cd /verif
VERIF_REPO=$WT VERIF_NO_EVIDENCE=1 timeout 1800 ./check $PROP --tier quick --seed $SEED > $LOG 2>&1
RC=$?
git -C $WT checkout -q -- .
grep -E "^violation|HARNESS|KNOWN" $LOG | cut -c1-260
echo "exit=$RC"
