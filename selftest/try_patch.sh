#!/bin/bash
# usage: try_patch.sh <patch.diff> <PROP> [seed]  -- applies the patch to /repo, runs the quick check, reverts.
set -u
P=$1; PROP=$2; SEED=${3:-0}
cd /repo || exit 2
if ! git diff --quiet; then echo "repo not clean"; exit 2; fi
git apply "$P" || { echo "patch does not apply"; exit 2; }
cd /verif
VERIF_NO_EVIDENCE=1 timeout 1800 ./check $PROP --tier quick --seed $SEED > /tmp/try_$PROP.log 2>&1
RC=$?
git -C /repo checkout -- .
grep -E "^VIOLATION|^violation|HARNESS|KNOWN" /tmp/try_$PROP.log | cut -c1-260
echo "exit=$RC"
