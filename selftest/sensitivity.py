#!/venv/bin/python
"""Sensitivity self-test: every confirmed seeded change under /verif/seeded is applied to a scratch worktree of /repo
(outside /repo and /verif, removed afterwards) and the property's quick check, pointed at it with VERIF_REPO, must
report a VIOLATION.  Writes evidence/selftest_sensitivity.json.   usage: selftest/sensitivity.py [name-prefix ...]"""
import json
import os
import subprocess
import sys
import tempfile
import time

HERE = os.path.dirname(os.path.dirname(os.path.abspath(__file__)))
want = sys.argv[1:]
seeded = sorted(d for d in os.listdir(os.path.join(HERE, "seeded")) if os.path.isdir(os.path.join(HERE, "seeded", d)))
if want:
    seeded = [d for d in seeded if any(d.startswith(w) for w in want)]
results = {}
wt = tempfile.mkdtemp(prefix="verif-sens-", dir="/tmp")
os.rmdir(wt)
subprocess.check_call(["git", "-C", "/repo", "worktree", "add", "-q", "--detach", wt, "HEAD"])
missed = 0
try:
    for d in seeded:
        meta = json.load(open(os.path.join(HERE, "seeded", d, "meta.json")))
        prop = meta.get("checked_by", meta["property"])      # a few changes are caught by a neighbouring property's check
        patch = os.path.join(HERE, "seeded", d, "patch.diff")
        subprocess.check_call(["git", "-C", wt, "checkout", "-q", "--", "."])
        if subprocess.call(["git", "-C", wt, "apply", patch]) != 0:
            results[d] = {"property": prop, "outcome": "patch-does-not-apply-on-current-HEAD"}
            print("%-45s patch does not apply" % d)
            continue
        t0 = time.time()
        env = dict(os.environ, VERIF_REPO=wt, VERIF_NO_EVIDENCE="1")
        p = subprocess.run([os.path.join(HERE, "check"), prop, "--tier", "quick"], env=env, cwd=HERE, capture_output=True, text=True)
        sigs = [ln.split()[1] for ln in p.stdout.splitlines() if ln.startswith("violation: ")]
        results[d] = {"property": prop, "exit": p.returncode, "violation_signatures": sigs[:8], "wall_s": round(time.time() - t0, 1),
                      "outcome": "detected" if p.returncode == 1 else ("harness-error" if p.returncode == 2 else "MISSED")}
        if p.returncode != 1:
            missed += 1
        print("%-45s %s %s" % (d, results[d]["outcome"], sigs[:2]))
finally:
    subprocess.call(["git", "-C", "/repo", "worktree", "remove", "--force", wt])
out_path = os.path.join(HERE, "evidence", "selftest_sensitivity.json")
import fcntl
_lk = open(out_path + ".lock", "w")
fcntl.flock(_lk, fcntl.LOCK_EX)      # partial re-runs may run side by side: merge under a lock
if want and os.path.exists(out_path):
    # a partial re-run (name prefixes given) replaces only its own entries
    prev = json.load(open(out_path)).get("results", {})
    prev.update(results)
    results = prev
n_missed = sum(1 for r in results.values() if r.get("outcome") != "detected")
with open(out_path, "w") as f:
    json.dump({"seeded_changes": len(results), "not_detected": n_missed, "results": results}, f, indent=1, sort_keys=True)
sys.exit(1 if missed else 0)
