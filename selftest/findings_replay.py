#!/venv/bin/python
"""Every finding's replay file must reproduce its violation on the commit BEFORE its repair (or on the commit named
in INDEX.json 'reproduces_at' when the replay was minimised on the original tree) and must not on HEAD.
Uses one scratch worktree under /tmp (removed afterwards).  Writes evidence/selftest_findings.json."""
import json
import os
import subprocess
import sys
import tempfile

HERE = os.path.dirname(os.path.dirname(os.path.abspath(__file__)))
idx = json.load(open(os.path.join(HERE, "findings", "INDEX.json")))
wt = tempfile.mkdtemp(prefix="verif-find-", dir="/tmp")
os.rmdir(wt)
subprocess.check_call(["git", "-C", "/repo", "worktree", "add", "-q", "--detach", wt, "HEAD"])
out, bad = {}, 0
try:
    for f, meta in sorted(idx.items()):
        path = os.path.join(HERE, "findings", f)
        subprocess.check_call(["git", "-C", wt, "checkout", "-q", "--detach", meta.get("reproduces_at") or meta["fixed_by"] + "~1"])
        env = dict(os.environ, VERIF_REPO=wt)
        before = subprocess.run([os.path.join(HERE, "check"), meta["property"], "--replay", path], env=env, cwd=HERE,
                                capture_output=True, text=True).returncode
        after = subprocess.run([os.path.join(HERE, "check"), meta["property"], "--replay", path], cwd=HERE,
                               capture_output=True, text=True).returncode
        ok = before == 1 and after == 0
        bad += 0 if ok else 1
        out[f] = {"property": meta["property"], "fixed_by": meta["fixed_by"], "exit_before_fix": before, "exit_at_head": after, "ok": ok}
        print("%-75s before=%d head=%d %s" % (f, before, after, "ok" if ok else "UNEXPECTED"))
finally:
    subprocess.call(["git", "-C", "/repo", "worktree", "remove", "--force", wt])
with open(os.path.join(HERE, "evidence", "selftest_findings.json"), "w") as fh:
    json.dump({"findings": len(out), "unexpected": bad, "results": out}, fh, indent=1, sort_keys=True)
sys.exit(1 if bad else 0)
