#!/bin/bash
# confirm_seeded.sh <worktree> <seeded-dir>... : for each, apply patch in the scratch worktree, run demo (must fail) and the
# pinned baseline (all stable tests must pass), revert, run demo (must pass).
WT=$1; shift
for d in "$@"; do
  n=$(basename $d)
  cd $WT && git checkout -q -- . && git apply $d/patch.diff || { echo "$n APPLY-FAILED"; continue; }
  PYTHONPATH=$WT timeout 600 /venv/bin/python $d/demo.py >/dev/null 2>&1; pd=$?
  out=$(cd $WT && PYTHONPATH=$WT VERIF_REPO=$WT /verif/selftest/baseline.py | head -1)
  git -C $WT checkout -q -- .
  PYTHONPATH=$WT timeout 600 /venv/bin/python $d/demo.py >/dev/null 2>&1; cd=$?
  echo "$n demo_with_patch=$pd demo_clean=$cd $out"
done
