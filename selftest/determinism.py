#!/venv/bin/python
"""Determinism self-test of the simulator: the same run seeds are executed in separate fresh interpreters at two
worker counts and must give identical history digests; under a different PYTHONHASHSEED the harness part of each run
(generated scenario, schedule, faults) must still be identical.  Writes evidence/selftest_determinism.json.
usage: selftest/determinism.py [--n 160] [PROP ...]"""
import json
import os
import shutil
import sys
import time

HERE = os.path.dirname(os.path.dirname(os.path.abspath(__file__)))
sys.path.insert(0, HERE)
from sim import runner, core  # noqa: E402

args = sys.argv[1:]
n = 160
if "--n" in args:
    i = args.index("--n")
    n = int(args[i + 1])
    del args[i:i + 2]
props = [a.upper() for a in args] or ["C06", "C07", "C09", "C10", "C12", "C16", "C17", "C18", "C19", "C20"]
out = {"runs_per_property": n, "results": {}}
bad = 0
for prop in props:
    t0 = time.time()
    work = runner.make_scratch("det-")
    sample = set(range(n))
    res = {}
    for label, jobs, variant in (("a_jobs16", 16, 0), ("b_jobs3", 3, 0), ("c_other_hashseed", 16, 1)):
        r, errors = runner.run_shards(prop, "quick", 0, variant, work, only_runs=sample, jobs=jobs)
        if errors:
            print("HARNESS-ERROR %s %s: %s" % (prop, label, errors[:2]))
            bad += 1
        res[label] = {row[0]: row for k in r for row in r[k]["runs"]}
    shutil.rmtree(work, ignore_errors=True)
    mism = [i for i in sorted(res["a_jobs16"]) if res["a_jobs16"][i] != res["b_jobs3"].get(i)]
    hmism = [i for i in sorted(res["a_jobs16"]) if res["a_jobs16"][i][2] != res["c_other_hashseed"].get(i, [None] * 3)[2]]
    rdiff = [i for i in sorted(res["a_jobs16"]) if res["a_jobs16"][i][3] != res["c_other_hashseed"].get(i, [None] * 4)[3]]
    out["results"][prop] = {"runs": len(res["a_jobs16"]), "digest_mismatches_between_worker_counts": mism,
                            "harness_digest_mismatches_under_other_hashseed": hmism,
                            "library_result_differences_under_other_hashseed": rdiff, "wall_s": round(time.time() - t0, 1)}
    print("%s: %d runs twice in fresh interpreters (16 vs 3 workers): %d mismatches; other PYTHONHASHSEED: %d harness mismatches, "
          "%d library-result differences" % (prop, len(res["a_jobs16"]), len(mism), len(hmism), len(rdiff)))
    bad += len(mism) + len(hmism)
os.makedirs(os.path.join(HERE, "evidence"), exist_ok=True)
with open(os.path.join(HERE, "evidence", "selftest_determinism.json"), "w") as f:
    json.dump(out, f, indent=1, sort_keys=True)
sys.exit(2 if bad else 0)
