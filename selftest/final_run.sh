#!/bin/bash
# final_run.sh [jobs] - everything that produces committed evidence, run IN /verif against /repo itself:
# thorough tier into evidence/thorough/, quick tier into evidence/, self-tests, manifest.
cd /verif || exit 2
J=${1:-16}
mkdir -p evidence/thorough
for p in C19 C18 C16 C17 C07 C06 C12 C10 C09 C20; do
  VERIF_JOBS=$J VERIF_EVIDENCE_DIR=/verif/evidence/thorough ./check $p --tier thorough > /tmp/final_thorough_$p.log 2>&1
  echo "thorough $p exit=$? $(grep -o '[0-9.]* s wall' /tmp/final_thorough_$p.log | tail -1)"
done
for p in C06 C07 C09 C10 C12 C16 C17 C18 C19 C20; do
  VERIF_JOBS=$J ./check $p --tier quick > /tmp/final_quick_$p.log 2>&1
  echo "quick $p exit=$?"
done
selftest/determinism.py > /tmp/final_det.log 2>&1; echo "determinism exit=$?"
/venv/bin/python selftest/findings_replay.py > /tmp/final_findrep.log 2>&1; echo "findings_replay exit=$?"
/venv/bin/python selftest/baseline.py | tail -1
python3 manifest_gen.py && echo manifest ok
