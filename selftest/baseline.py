#!/venv/bin/python
"""Runs the repository's pinned baseline command (guard off: there are no hooks) and checks that every
stable_pass test of /root/.vp/BASELINE.json still passes.  Exit 0 iff none is missing."""
import json
import os
import subprocess
import sys
import tempfile
import xml.etree.ElementTree as ET

repo = os.environ.get("VERIF_REPO", "/repo")
out = tempfile.mktemp(suffix=".xml")
subprocess.call(["/venv/bin/python", "-m", "pytest", "-q", "-p", "no:cacheprovider", "--timeout=900",
                 "--continue-on-collection-errors", "--junitxml=" + out], cwd=repo,
                stdout=subprocess.DEVNULL, stderr=subprocess.DEVNULL)
stable = set(json.load(open("/root/.vp/BASELINE.json"))["stable_pass"])
passed = set()
for tc in ET.parse(out).iter("testcase"):
    if not any(c.tag in ("failure", "error", "skipped") for c in tc):
        passed.add(tc.get("classname") + "::" + tc.get("name"))
os.unlink(out)
missing = sorted(stable - passed)
print("baseline: %d stable tests, %d no longer passing" % (len(stable), len(missing)))
for m in missing[:20]:
    print("  " + m)
sys.exit(1 if missing else 0)
