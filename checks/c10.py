"""C10 - Onset/Offset/Inset bookkeeping follows the event history exactly.

The open-scope bookkeeping is itself a tiny discrete-event system.  A generated event history
(markers {Onset, Offset, Inset} x definition names, plain / valued / case variants, grouped into time
points) is fed to the REAL code by two drivers: (1) API stepping - one OnsetValidator, one call of
validate_temporal_relations per time point, the reference model stepped in lock-step; (2) file level
- the same history written as an events table with markers of one time point split over equal-onset
rows, some markers moved to earlier rows behind a Delay tag, optionally with the rows shuffled - and
TabularInput.validate.  The reference model is a nondeterministic discrete-event simulator: markers of
one time point are concurrent, so every linearisation is an allowed outcome.  See DESIGN.md 4/C10.
"""
import copy
import itertools
import re

from sim import core
from sim.core import Gen, Violation

PROP = "C10"
LEVEL = "exploration"
HASH_VARIANTS = 1
RUNS = {"quick": 3000, "thorough": 600000}
WALL_LIMIT = {"quick": 1200, "thorough": 5 * 3600}
ENUM_LEN = {"quick": 3, "thorough": 4}
PROBES = ["offset_after_reonset", "inset_after_offset", "same_name_different_value", "two_markers_one_name_one_timepoint",
          "case_variant_names", "delay_shifted_marker", "equal_onset_rows", "rows_shuffled", "scope_left_open_at_end",
          "unmatched_reported", "enumerated_short_history", "file_level_runs", "api_level_runs", "concurrent_order_matters",
          "def_expand_spelling", "noise_error_rows", "validator_object_reused", "marker_row_with_warning_only_tag",
          "temporal_issue_row_label_checked", "marker_in_row_without_onset"]
RULE = ("Runs 0..N-1 enumerate every history of up to 3 (quick) / 4 (thorough) single-marker time points over "
        "{Onset,Offset,Inset} x {A, B/3} (exhaustive floor); the other runs are seeded histories of 2-10 time points with "
        "1-3 markers each over 1-3 definition names in plain / valued / case-variant spelling, driven through the API "
        "stepper and (2 of 3 runs) through an events file with equal-onset row splitting, Delay shifts, optional row "
        "shuffling, plain tags that draw warnings only, and (3 in 10) on a SpreadsheetValidator object that validated "
        "another file before.  Non-trivial: the history contains an unmatched marker, a re-Onset, or two markers for one name in one "
        "time point.  Distinct = distinct sha-256 of (scenario, observed issues).")
COMPONENTS = {"real": ["OnsetValidator", "SpreadsheetValidator._run_onset_checks/_run_checks", "df_util.split_delay_tags/"
                       "sort_dataframe_by_onsets/filter_series_by_onset", "TabularInput", "HedString", "HedValidator", "schema 8.3.0"],
              "stub": []}
ASSUMPTIONS = ["markers that share a time point are concurrent: the outcome of any linearisation is accepted",
               "temporal issues are classified by their message templates (unmatched Offset / unmatched Inset / name already used)",
               "row labels of temporal issues are not judged here (C07 judges labels)"]

_W = {}


def _init():
    if _W:
        return _W
    import warnings
    warnings.simplefilter("ignore")
    import os
    import pandas as pd
    import hed
    from hed import HedString, TabularInput
    from hed.schema import load_schema
    from hed.models.definition_dict import DefinitionDict
    from hed.validator.onset_validator import OnsetValidator
    repo = os.environ.get("VERIF_REPO", "/repo")
    schema = load_schema(os.path.join(repo, "hed/schema/schema_data/HED8.3.0.xml"))
    dd = DefinitionDict(["(Definition/A, (Red))", "(Definition/B/#, (Label/#))", "(Definition/Cee, (Blue, Square))"], schema)
    _W.update(pd=pd, HedString=HedString, TabularInput=TabularInput, schema=schema, dd=dd, OnsetValidator=OnsetValidator)
    del hed
    return _W


KINDS = ["Onset", "Offset", "Inset"]
SPELL = {"A": ["A", "a"], "B/3": ["B/3", "b/3"], "B/4": ["B/4"], "Cee": ["Cee", "CEE", "cee"],
         "B/go": ["B/go", "b/GO", "B/Go", "B/go"]}


# seconds per unit, from the SI prefixes and the time units of the schema (singular / plural / symbol spellings string
# validation accepts) - written down here, not asked of the library
UNIT_FACTOR = {"s": 1.0, "ms": 1e-3, "second": 1.0, "seconds": 1.0, "millisecond": 1e-3, "milliseconds": 1e-3, "ks": 1e3,
               "kilosecond": 1e3, "kiloseconds": 1e3, "minute": 60.0, "minutes": 60.0, "hour": 3600.0, "hours": 3600.0,
               "cs": 1e-2, "centiseconds": 1e-2, "day": 86400.0}
# (micro and beyond are left out: the released schema file spells their factors "10e-6", i.e. 1e-5 - a matter of the
# schema data, not of this property)

DEF_CONTENT = {"a": "(Red)", "cee": "(Blue, Square)"}


def _marker_text(kind, name, expanded=False):
    if expanded:
        base = name.casefold().split("/")[0]
        content = DEF_CONTENT.get(base) or "(Label/%s)" % name.split("/", 1)[1]
        return "((Def-expand/%s, %s), %s)" % (name, content, kind)
    if kind == "Onset":
        return "(Def/%s, Onset)" % name
    if kind == "Offset":
        return "(Def/%s, Offset)" % name
    return "(Def/%s, Inset)" % name


# ------------------------------------------------------------------------------------------- generation
def _enum_history(idx, max_len):
    alphabet = [(k, n) for k in KINDS for n in ("A", "B/3")]
    for length in range(1, max_len + 1):
        n = len(alphabet) ** length
        if idx < n:
            out = []
            for _ in range(length):
                out.append([list(alphabet[idx % len(alphabet)])])
                idx //= len(alphabet)
            return out
        idx -= n
    return None


def n_enum(tier):
    return sum(6 ** L for L in range(1, ENUM_LEN[tier] + 1))


def generate(run_index, seed, tier):
    g = Gen(seed)
    hist = _enum_history(run_index, ENUM_LEN[tier]) if run_index < n_enum(tier) else None
    sc = {"enumerated": hist is not None}
    if hist is None:
        keys = g.subset(["A", "B/3", "B/4", "Cee", "B/go"], 1, 3)
        hist = []
        for _ in range(g.randint(2, 10)):
            tp = []
            for _ in range(g.pick([1, 1, 1, 2, 2, 3])):
                key = g.pick(keys)
                tp.append([g.pick(KINDS), g.pick(SPELL[key])])
            hist.append(tp)
    sc["history"] = hist
    # times: strictly increasing multiples of 0.25
    t = 0.0
    times = []
    for _ in hist:
        t += g.pick([0.25, 0.5, 1.0, 1.5, 2.0]) if g.chance(0.93) else g.pick([60.0, 120.0, 3600.0, 86400.0])
        times.append(t)
    sc["times"] = times
    sc["driver"] = g.pick(["api", "file", "file"]) if not sc["enumerated"] else ("api" if run_index % 2 == 0 else "file")
    if sc["driver"] == "file":
        rows = []   # [onset_text, hed_text]
        # first decide which markers are delivered from an earlier row behind a Delay tag; several delayed groups may
        # share one carrying row (and one cell)
        carried = {}     # source time point -> [text]
        own = []
        for ti, (tp, T) in enumerate(zip(hist, times)):
            mine = []
            for (kind, name) in tp:
                if ti > 0 and g.chance(0.25):
                    src = g.randrange(ti) if g.chance(0.6) else max(0, ti - 1)
                    delta = T - times[src]
                    unit = g.pick(["s", "s", "ms"] + sorted(UNIT_FACTOR))
                    val = "%.12g" % (delta / UNIT_FACTOR[unit])
                    if float(val) * UNIT_FACTOR[unit] != delta:
                        # the shifted time must be exactly the time point it is meant to join (value x factor in floating
                        # point, as anyone computes it); spellings that cannot express this delay exactly are not used
                        unit, val = "s", "%.12g" % delta
                    # tag names are case-insensitive; the Delay tag may stand first, in the middle or last in its group
                    dl = "%s/%s %s" % (g.pick(["Delay", "Delay", "Delay", "delay", "DELAY"]), val, unit)
                    form = g.pick(["(Def/%s, %s, %s)", "(Def/%s, %s, %s)", "(%s, Def/%s, %s)", "(Def/%s, %s, %s)"])
                    if form.startswith("(%s"):
                        carried.setdefault(src, []).append(form % (dl, name, kind))
                    else:
                        carried.setdefault(src, []).append(form % (name, kind, dl) if g.chance(0.7) else "(Def/%s, %s, %s)" % (name, dl, kind))
                else:
                    mine.append(_marker_text(kind, name, expanded=g.chance(0.15)))
            own.append(mine)
        for ti, (tp, T) in enumerate(zip(hist, times)):
            buckets = [[] for _ in range(g.pick([1, 1, 2, 3]))]
            for txt in own[ti]:
                g.pick(buckets).append(txt)
            extra = carried.get(ti, [])
            if extra:
                tgt = g.pick(buckets)
                for txt in extra:
                    (tgt if g.chance(0.7) else g.pick(buckets)).append(txt)
            for b in buckets:
                if b or g.chance(0.3):
                    # plain tags beside the markers; the lower-case and the extended one draw a warning only (a row with
                    # nothing worse than a warning takes part in the temporal pass like any other)
                    hed = ", ".join(b + ([g.pick(["Red", "Blue", "Green", "red", "Item/Newthing", "blue"])]
                                         if g.chance(0.4) or not b else []))
                    rows.append([g.pick(["%.10g", "%.2f", "%.1f"]) % T if (T * 10) % 1 == 0 else "%.10g" % T, hed, ti])
        # keep file order = time order (stable by construction index), unless shuffled
        rows.sort(key=lambda r: (times[r[2]], 0))
        sc["rows"] = [[r[0], r[1]] for r in rows]
        # noise: rows that carry a cell error and no marker, at time points of their own (rows that already failed are
        # skipped by the temporal pass; the markers of the other rows must be unaffected)
        for _ in range(g.pick([0, 0, 1, 2])):
            k = g.randrange(len(times))
            tn = times[k] + 0.0625
            sc["rows"].append(["%.10g" % tn, g.pick(["Grren", "Red, Redd", "(Blue, Green"])])
        sc["rows"].sort(key=lambda r: float(r[0]))
        sc["shuffle"] = g.chance(0.3)
        if sc["shuffle"]:
            sc["rows"] = g.shuffled(sc["rows"])
        if not sc["enumerated"] and g.chance(0.25):
            # rows without a time (onset n/a): whatever markers they carry, they are not on the time line
            for _ in range(g.pick([1, 1, 2])):
                key = g.pick(keys)
                txt = g.pick([_marker_text(g.pick(KINDS), g.pick(SPELL[key])), "Red", _marker_text("Offset", g.pick(SPELL[key]))])
                sc["rows"].insert(g.randrange(len(sc["rows"]) + 1), ["n/a", txt])
        if g.chance(0.3):
            # the same SpreadsheetValidator object validated another file before (which leaves scopes open at its end)
            prev, t = [], 0.0
            for key in g.subset(keys if not sc["enumerated"] else ["A", "B/3"], 1, 2):
                t += 1.0
                prev.append(["%g" % t, _marker_text("Onset", g.pick(SPELL[key]))])
            if g.chance(0.3):
                prev.append(["%g" % (t + 1), "Red"])
            sc["prev_rows"] = prev
    return sc


def shrink(sc):
    if sc["driver"] == "file":
        for i in range(len(sc["rows"])):
            if len(sc["rows"]) > 1:
                c = copy.deepcopy(sc)
                del c["rows"][i]
                c["history"] = None      # the file itself becomes the source of truth
                yield c
        if sc.get("shuffle"):
            c = copy.deepcopy(sc)
            c["shuffle"] = False
            c["rows"] = sorted(c["rows"], key=lambda r: float(r[0]) if r[0] != "n/a" else 1e18)
            c["history"] = None
            yield c
        for i, r in enumerate(sc["rows"]):
            parts = _split_top(r[1])
            if len(parts) > 1:
                for j in range(len(parts)):
                    c = copy.deepcopy(sc)
                    c["rows"][i][1] = ", ".join(parts[:j] + parts[j + 1:])
                    c["history"] = None
                    yield c
        return
    h = sc["history"]
    for i in range(len(h)):
        if len(h) > 1:
            c = copy.deepcopy(sc)
            del c["history"][i]
            del c["times"][i]
            yield c
    for i, tp in enumerate(h):
        for j in range(len(tp)):
            if len(tp) > 1:
                c = copy.deepcopy(sc)
                del c["history"][i][j]
                yield c


def _split_top(text):
    parts, depth, cur = [], 0, []
    for ch in text:
        if ch == "(":
            depth += 1
        elif ch == ")":
            depth -= 1
        if ch == "," and depth == 0:
            parts.append("".join(cur).strip())
            cur = []
        else:
            cur.append(ch)
    if "".join(cur).strip():
        parts.append("".join(cur).strip())
    return parts


# ------------------------------------------------------------------------------------------- reference model
def _step_all_orders(states, markers):
    """states: set of frozenset(open keys).  Returns {(new_state, issues multiset as sorted tuple)}."""
    out = set()
    perms = set(itertools.permutations(range(len(markers)))) if len(markers) <= 5 else {tuple(range(len(markers)))}
    for st in states:
        for perm in perms:
            open_ = set(st)
            used = set()
            issues = []
            for i in perm:
                kind, name = markers[i]
                key = name.casefold()
                if key in used:
                    issues.append(("same", key))
                    continue
                used.add(key)
                if kind == "Onset":
                    open_.add(key)
                elif kind == "Offset":
                    if key not in open_:
                        issues.append(("offset", key))
                    else:
                        open_.discard(key)
                else:
                    if key not in open_:
                        issues.append(("inset", key))
            out.add((frozenset(open_), tuple(sorted(issues))))
    return out


_RE_UNMATCHED = re.compile(r"^(Offset|Inset) tag '([^']*)' does not have a matching onset")
_RE_SAME = re.compile(r"uses name '([^']*)', which was already used at this onset time")


def _classify(issues):
    out = []
    other = []
    for i in issues:
        if i.get("code") != "TEMPORAL_TAG_ERROR":
            other.append(i.get("code"))
            continue
        msg = i.get("message", "")
        m = _RE_UNMATCHED.search(msg)
        if m:
            name = m.group(2)
            low = name.lower()
            name = name[11:] if low.startswith("def-expand/") else (name[4:] if low.startswith("def/") else name)
            out.append((m.group(1).lower(), name.casefold()))
            continue
        m = _RE_SAME.search(msg)
        if m:
            out.append(("same", m.group(1).casefold()))
            continue
        other.append("TEMPORAL_TAG_ERROR:" + msg[:60])
    return tuple(sorted(out)), other


def _timepoints_from_rows(rows):
    """Independent reading of a file: effective time -> list of (kind, name)."""
    tps = {}
    for onset, hed in rows:
        if onset == "n/a":
            continue
        t0 = float(onset)
        for part in _split_top(hed):
            if not part.startswith("("):
                continue
            km = re.search(r"(?<![\w-])(Onset|Offset|Inset)(?![\w-])", part)
            dm = re.search(r"Def(?:-expand)?/([^,()\s]+)", part, re.IGNORECASE)
            if km is None or dm is None:
                continue
            t = t0
            lm = re.search(r"Delay/([0-9.eE+-]+) (\w+)", part, re.IGNORECASE)
            if lm:
                t = t0 + float(lm.group(1)) * UNIT_FACTOR[lm.group(2)]
            tps.setdefault(round(t, 6), []).append((km.group(1), dm.group(1)))
    return [tps[k] for k in sorted(tps)]


# ------------------------------------------------------------------------------------------- execution
def execute(sc, script=None):
    W = _init()
    violations, probes, trace = [], {}, []

    def probe(k, n=1):
        probes[k] = probes.get(k, 0) + n

    def viol(clause, detail, sig):
        violations.append(Violation(clause, detail, sig).record(PROP))

    if sc["driver"] == "file":
        hist = _timepoints_from_rows(sc["rows"])
    else:
        hist = [[tuple(m) for m in tp] for tp in sc["history"]]
    # probes on the history (by a deterministic run of the model in file order)
    nontrivial = _history_probes(hist, probe)
    if sc.get("enumerated"):
        probe("enumerated_short_history")
    states = {frozenset()}
    if sc["driver"] == "api":
        probe("api_level_runs")
        ov = W["OnsetValidator"]()
        for ti, tp in enumerate(hist):
            text = ", ".join(_marker_text(k, n) for k, n in tp)
            try:
                issues = ov.validate_temporal_relations(W["HedString"](text, W["schema"], W["dd"]))
            except Exception as e:  # noqa
                viol("no-exception", "validate_temporal_relations(%r) raised %s: %s" % (text, type(e).__name__, str(e)[:200]),
                     "api-raises-%s" % type(e).__name__)
                break
            got, other = _classify(issues)
            trace.append([text, list(got), other])
            if other:
                viol("unexpected-issue", "time point %d %r produced unclassifiable temporal issues %s" % (ti, text, other),
                     "api-unclassified-issue")
                break
            nxt = _step_all_orders(states, tp)
            allowed = {iss for (_, iss) in nxt}
            if len(allowed) > 1:
                probe("concurrent_order_matters")
            if got not in allowed:
                viol("open-scope-bookkeeping",
                     "history %s: at time point %d (%r) the validator reported %s, the reference model allows %s (open before: %s)"
                     % (_fmt_hist(hist[:ti + 1]), ti, text, list(got), sorted(allowed), sorted(sorted(s) for s in states)),
                     _sig(got, allowed))
                break
            states = {st for (st, iss) in nxt if iss == got}
    else:
        probe("file_level_runs")
        pd = W["pd"]
        df = pd.DataFrame(sc["rows"], columns=["onset", "HED"])
        try:
            if sc.get("prev_rows"):
                probe("validator_object_reused")
                from hed.validator.spreadsheet_validator import SpreadsheetValidator
                sv = SpreadsheetValidator(W["schema"])
                sv.validate(W["TabularInput"](pd.DataFrame(sc["prev_rows"], columns=["onset", "HED"])), def_dicts=W["dd"])
                issues = sv.validate(W["TabularInput"](df), def_dicts=W["dd"])
            else:
                issues = W["TabularInput"](df).validate(W["schema"], extra_def_dicts=W["dd"])
        except Exception as e:  # noqa
            viol("no-exception", "validating the events table %s raised %s: %s" % (sc["rows"], type(e).__name__, str(e)[:300]),
                 "file-raises-%s" % type(e).__name__)
            return _result(sc, violations, probes, trace, nontrivial)
        got, other = _classify(issues)
        # row labels (1-based, header counted): an unmatched-marker issue names a row that belongs to the time point where a
        # marker of that kind and name takes effect - a row with that onset, or the row that carries the delayed marker
        if not sc.get("prev_rows"):
            where = {}          # (kind, name) -> set of allowed file rows
            by_time = {}        # effective time -> rows that belong to that time point (own onset, or carrying a group that lands there)
            marks = []
            for ri, (onset, hed) in enumerate(sc["rows"]):
                if onset == "n/a":
                    continue
                by_time.setdefault(round(float(onset), 6), set()).add(ri + 2)
                for part in _split_top(hed):
                    t = float(onset)
                    lm = re.search(r"Delay/([0-9.eE+-]+) (\w+)", part, re.IGNORECASE)
                    if lm and part.startswith("("):
                        t += float(lm.group(1)) * UNIT_FACTOR[lm.group(2)]
                        by_time.setdefault(round(t, 6), set()).add(ri + 2)
                    km = re.search(r"(?<![\w-])(Onset|Offset|Inset)(?![\w-])", part)
                    dm = re.search(r"Def(?:-expand)?/([^,()\s]+)", part, re.IGNORECASE)
                    if part.startswith("(") and km and dm:
                        marks.append(((km.group(1).lower(), dm.group(1).casefold()), round(t, 6)))
            for key, t in marks:
                where.setdefault(key, set()).update(by_time.get(t, set()))
            for i in issues:
                one, _o = _classify([i])
                if len(one) == 1 and one[0][0] in ("offset", "inset") and i.get("ec_row") is not None:
                    probe("temporal_issue_row_label_checked")
                    if i.get("ec_row") not in where.get(one[0], set()):
                        viol("row-label", "the %s issue for %r is labelled row %r, but such a marker only occurs in / takes effect "
                             "with rows %s of %s" % (one[0][0], one[0][1], i.get("ec_row"), sorted(where.get(one[0], ())), sc["rows"]),
                             "temporal-issue-row-label")
                        break
        other = [o for o in other if o not in ("ONSETS_UNORDERED", "TAG_EXPRESSION_REPEATED")]
        if any(r[0] == "n/a" and "(" in r[1] for r in sc["rows"]):
            # a marker in a row without a time is reported as such (and takes no part in the bookkeeping)
            other = [o for o in other if not o.startswith("TEMPORAL_TAG_ERROR:Cannot have Temporal tags without")]
        trace.append([list(got), other])
        if any(o.startswith("TEMPORAL_TAG_ERROR") for o in other):
            viol("unexpected-issue", "the events table %s produced unclassifiable temporal issues %s" % (sc["rows"], other),
                 "file-unclassified-issue")
        if len({r[0] for r in sc["rows"]}) < len(sc["rows"]):
            probe("equal_onset_rows")
        if any("delay/" in r[1].lower() for r in sc["rows"]):
            probe("delay_shifted_marker")
        if sc.get("shuffle"):
            probe("rows_shuffled")
        if any("Def-expand/" in r[1] for r in sc["rows"]):
            probe("def_expand_spelling")
        if any(r[0] == "n/a" and "(" in r[1] for r in sc["rows"]):
            probe("marker_in_row_without_onset")
        if any(r[1] in ("Grren", "Red, Redd", "(Blue, Green") for r in sc["rows"]):
            probe("noise_error_rows")
        if any(re.search(r"(?<![\w/-])(red|blue|Item/Newthing)(?![\w-])", r[1]) and "(" in r[1] for r in sc["rows"]):
            probe("marker_row_with_warning_only_tag")
        # all outcomes the nondeterministic model can produce for the whole file
        paths = {(frozenset(), ())}
        for tp in hist:
            new = set()
            by_state = {}
            for st, acc in paths:
                by_state.setdefault(st, set()).add(acc)
            for st, accs in by_state.items():
                for (st2, iss) in _step_all_orders({st}, tp):
                    for acc in accs:
                        new.add((st2, tuple(sorted(acc + iss))))
            paths = new
            if len(paths) > 5000:
                break
        allowed = {acc for (_, acc) in paths}
        if len(allowed) > 1:
            probe("concurrent_order_matters")
        if len(paths) <= 5000 and got not in allowed and not violations:
            viol("open-scope-bookkeeping",
                 "events table %s (time points %s): the validator reported %s, the reference model allows %s"
                 % (sc["rows"], _fmt_hist(hist), list(got), sorted(allowed)[:4]), "file-" + _sig(got, allowed))
    return _result(sc, violations, probes, trace, nontrivial)


def _sig(got, allowed):
    """Signature: which kind of disagreement (missing / extra issue kind)."""
    best = min(allowed, key=lambda a: len(set(a) ^ set(got))) if allowed else ()
    missing = sorted({k for k, _ in set(best) - set(got)})
    extra = sorted({k for k, _ in set(got) - set(best)})
    if not missing and not extra:
        return "issue-count-differs"
    return "missing-%s-extra-%s" % ("+".join(missing) or "none", "+".join(extra) or "none")


def _fmt_hist(hist):
    return " | ".join(", ".join("%s %s" % (k, n) for k, n in tp) for tp in hist)


def _history_probes(hist, probe):
    open_, closed_once = set(), set()
    nontrivial = False
    seen_names = {}
    for tp in hist:
        keys = [n.casefold() for _, n in tp]
        if len(keys) != len(set(keys)):
            probe("two_markers_one_name_one_timepoint")
            nontrivial = True
        for kind, name in tp:
            key = name.casefold()
            base = key.split("/")[0]
            seen_names.setdefault(base, set()).add(name)
            if kind == "Onset":
                if key in open_:
                    nontrivial = True
                if key in closed_once:
                    pass
                open_.add(key)
            elif kind == "Offset":
                if key in open_:
                    open_.discard(key)
                    closed_once.add(key)
                else:
                    probe("unmatched_reported")
                    nontrivial = True
                    if key in closed_once:
                        probe("offset_after_reonset")
            else:
                if key not in open_:
                    probe("unmatched_reported")
                    nontrivial = True
                    if key in closed_once:
                        probe("inset_after_offset")
    for base, names in seen_names.items():
        if len({n.casefold() for n in names}) > 1:
            probe("same_name_different_value")
        if len(names) > len({n.casefold() for n in names}):
            probe("case_variant_names")
    if open_:
        probe("scope_left_open_at_end")
    return nontrivial


def _result(sc, violations, probes, trace, nontrivial):
    seen, uniq = set(), []
    for v in violations:
        if v["signature"] not in seen:
            seen.add(v["signature"])
            uniq.append(v)
    return {"violations": uniq, "digest": core.digest([sc, trace]), "hdigest": core.digest(sc), "rdigest": core.digest(trace),
            "decisions": [], "nontrivial": nontrivial, "probes": probes, "faults": {}, "steps": len(trace), "sim_s": 0.0,
            "states": [core.digest(t) for t in trace[-2:]], "sched": core.digest(sc.get("rows") or sc.get("history")),
            "summary": {"driver": sc["driver"], "timepoints": len(sc["history"]) if sc.get("history") else len(sc.get("rows", []))}}
