"""C20 - Temporal context of every event equals the set of processes ongoing at that time.

EventManager is a batch computation, so the simulation content is narrow (DESIGN.md 4/C20): the
oracle is a discrete-event reference simulation of the timeline (priority queue of start / timer
events: Onset opens or restarts, Offset closes, a Duration group is a timer that fires at the first
time point at or after start + duration, Delay schedules delivery at a later time), and the
reordering fault on the event log must be detected: row orders that break monotonic onsets must be
rejected, orders that only permute equal-onset rows must be accepted with the same answer.
"""
import copy
import heapq

from sim import core
from sim.core import Gen, Violation
from gen import vocab

PROP = "C20"
LEVEL = "exploration"
HASH_VARIANTS = 1
RUNS = {"quick": 2500, "thorough": 500000}
WALL_LIMIT = {"quick": 1200, "thorough": 5 * 3600}
PROBES = ["duration_ends_exactly_on_timepoint", "duration_beyond_last_row", "duration_between_timepoints", "restart_of_open_process",
          "process_left_open", "delay_shifted_onset", "delay_shifted_duration", "delay_creates_new_timepoint", "equal_onset_rows",
          "reorder_rejected", "reorder_equal_onsets_accepted", "context_nonempty_points", "unit_ms", "unit_minute",
          "type_filtered_view_then_reread", "na_onset_row_between_decreasing_onsets"]
RULE = ("Each run generates a valid time-ordered history of 2-10 time points over 1-3 definition names (Onset/Offset pairs, "
        "restarts, processes left open, Duration groups ending before / exactly on / between / after time points and beyond the "
        "last row in s, ms and minute, Delay-shifted Onset and Duration groups, equal-onset rows, plain tags), builds the events "
        "table, runs EventManager and HedTagManager and compares every first row of a time point with the discrete-event "
        "reference simulation; then replays the file under seeded row permutations (reordering fault).  Non-trivial: some "
        "context is non-empty and at least one boundary probe fired.  Distinct = distinct sha-256 of (scenario, observations).")
COMPONENTS = {"real": ["EventManager", "TemporalEvent", "HedTagManager.get_hed_objs", "df_util.split_delay_tags/filter_series_by_onset",
                       "TabularInput", "schema 8.3.0"], "stub": []}
ASSUMPTIONS = ["rows merged away by the equal-onset rule are not judged (the statement makes them part of the same time point)",
               "process contents are compared as unordered trees with Onset/Duration/Delay tags dropped",
               "boundary cases use durations that are exact in binary floating point"]

_W = {}


def _init():
    if _W:
        return _W
    import warnings
    warnings.simplefilter("ignore")
    import os
    import pandas as pd
    from hed import TabularInput
    from hed.schema import load_schema
    from hed.models.definition_dict import DefinitionDict
    from hed.tools.analysis.event_manager import EventManager
    from hed.tools.analysis.hed_tag_manager import HedTagManager
    from hed.errors.exceptions import HedFileError
    repo = os.environ.get("VERIF_REPO", "/repo")
    schema = load_schema(os.path.join(repo, "hed/schema/schema_data/HED8.3.0.xml"))
    dd = DefinitionDict(["(Definition/A, (Red))", "(Definition/B/#, (Label/#))", "(Definition/Cee, (Blue, Square))"], schema)
    _W.update(pd=pd, TabularInput=TabularInput, schema=schema, dd=dd, EventManager=EventManager, HedTagManager=HedTagManager,
              HedFileError=HedFileError)
    return _W


PLAIN = ["Green", "Circle", "Face", "Triangle", "Yellow", "Star", "Arrow", "Task", "Condition-variable/Cond1"]
INNER = ["Blue", "Cross", "Hand", "White"]
KEYS = ["A", "B/3", "B/4", "Cee"]


def _fmt(x):
    return "%g" % x


# ------------------------------------------------------------------------------------------- generation
def generate(run_index, seed, tier):
    g = Gen(seed)
    n = g.randint(2, 10)
    times = []
    t = 0.0
    for _ in range(n):
        t += g.pick([0.25, 0.5, 1.0, 1.0, 1.5, 2.0])
        times.append(t)
    keys = g.subset(KEYS, 1, 3)
    open_ = set()
    # elements: {"t": effective time, "row_t": time of the row that carries it, "kind": plain|onset|offset|duration, ...}
    elements = []
    scheduled = {}   # tp index -> keys touched (validity: one marker per key and time point)
    for i, T in enumerate(times):
        touched = scheduled.setdefault(i, set())
        for _ in range(g.pick([0, 1, 1, 2])):
            elements.append({"kind": "plain", "t": T, "row_t": T, "tag": g.pick(PLAIN)})
        for _ in range(g.pick([0, 1, 1, 2])):
            r = g.random()
            if r < 0.45:
                key = g.pick(keys)
                if key in touched:
                    continue
                touched.add(key)
                el = {"kind": "onset", "t": T, "row_t": T, "key": key, "inner": g.pick(INNER) if g.chance(0.4) else None}
                open_.add(key)
                elements.append(el)
            elif r < 0.7:
                cands = sorted(k for k in open_ if k not in touched)
                if not cands:
                    continue
                key = g.pick(cands)
                touched.add(key)
                open_.discard(key)
                elements.append({"kind": "offset", "t": T, "row_t": T, "key": key})
            else:
                # duration: end before / exactly on / between / after time points, beyond the last row
                mode = g.pick(["exact", "between", "beyond", "short"])
                unit = "s"
                if mode == "exact" and i + 1 < n:
                    j = g.randrange(i + 1, n)
                    d = times[j] - T
                elif mode == "beyond":
                    d = (times[-1] - T) + g.pick([0.5, 10.0])
                    unit = g.pick(["s", "minute"]) if d >= 10 else "s"
                elif mode == "short":
                    d = 0.125
                else:
                    d = g.pick([0.375, 0.625, 1.125, 2.375])
                    unit = g.pick(["s", "ms"])
                if unit == "ms":
                    val = _fmt(d * 1000)
                elif unit == "minute":
                    d = 30.0
                    val = "0.5"
                else:
                    val = _fmt(d)
                elements.append({"kind": "duration", "t": T, "row_t": T, "dur": d, "val": val, "unit": unit,
                                 "content": g.sample(INNER + PLAIN, g.randint(1, 2))})
    # Delay shifts: move some onset/duration elements to an earlier carrying row
    for el in elements:
        if el["kind"] in ("onset", "duration") and g.chance(0.2):
            earlier = [x for x in times if x < el["t"]]
            if g.chance(0.3):
                # delivery at a time that is not a row time: shift the effective time instead
                el["t"] = el["t"] + 0.0625
                earlier = [x for x in times if x < el["t"]]
            if earlier:
                el["row_t"] = g.pick(earlier)
                el["delay"] = el["t"] - el["row_t"]
            elif "delay" not in el and el["t"] not in times:
                el["t"] = el["row_t"]
    # a delayed onset changes validity of later offsets: recompute validity with the reference run and drop bad offsets
    elements = _drop_invalid(elements)
    # definition names are case-insensitive: a restart or an Offset may spell the name differently from the Onset
    for el in elements:
        if el["kind"] in ("onset", "offset") and g.chance(0.25):
            nm, _, val = el["key"].partition("/")
            el["spell"] = g.pick([nm.lower(), nm.upper()]) + (("/" + val) if val else "")
    # rows: per carrying time, 1-3 rows with equal onset
    rows = []
    for T in times:
        mine = [e for e in elements if e["row_t"] == T]
        k = g.pick([1, 1, 2, 3])
        buckets = [[] for _ in range(k)]
        for e in mine:
            g.pick(buckets).append(_text(e))
        for b in buckets:
            if b or len(buckets) == 1 or g.chance(0.5):
                rows.append([_fmt(T), ", ".join(b) if b else g.pick(["n/a", ""])])
    sc = {"rows": rows, "elements": elements, "times": times}
    sc["perms"] = [g.randrange(1 << 30) for _ in range(2)]
    return sc


def _text(e):
    if e["kind"] == "plain":
        return e["tag"]
    delay = ", Delay/%s s" % _fmt(e["delay"]) if e.get("delay") else ""
    if e["kind"] == "onset":
        inner = ", (%s)" % e["inner"] if e.get("inner") else ""
        return "(Def/%s, Onset%s%s)" % (e.get("spell", e["key"]), inner, delay)
    if e["kind"] == "offset":
        return "(Def/%s, Offset)" % e.get("spell", e["key"])
    return "(Duration/%s %s%s, (%s))" % (e["val"], e["unit"], delay, ", ".join(e["content"]))


def _drop_invalid(elements):
    """Keep the history valid after Delay shifts: an Offset needs an open scope at its time, and a key may be
    touched only once per time point."""
    out = []
    by_time = sorted(range(len(elements)), key=lambda i: (elements[i]["t"], i))
    open_ = set()
    touched = {}
    keep = set()
    for i in by_time:
        e = elements[i]
        if e["kind"] in ("onset", "offset"):
            tk = touched.setdefault(e["t"], set())
            if e["key"] in tk:
                continue
            if e["kind"] == "offset" and e["key"] not in open_:
                continue
            tk.add(e["key"])
            if e["kind"] == "onset":
                open_.add(e["key"])
            else:
                open_.discard(e["key"])
        keep.add(i)
    for i, e in enumerate(elements):
        if i in keep:
            out.append(e)
    # an Offset and a later-delivered Onset of the same key at one time: order inside a time point is not fixed -> avoid
    return out


def shrink(sc):
    for i in range(len(sc["elements"])):
        c = copy.deepcopy(sc)
        del c["elements"][i]
        c["elements"] = _drop_invalid(c["elements"])
        c["rows"] = _rows_from_elements(c)
        if c["rows"]:
            yield c
    for i in range(len(sc["times"])):
        if len(sc["times"]) > 1:
            c = copy.deepcopy(sc)
            T = c["times"][i]
            del c["times"][i]
            c["elements"] = _drop_invalid([e for e in c["elements"] if e["row_t"] != T])
            c["rows"] = _rows_from_elements(c)
            if c["rows"]:
                yield c
    if len(sc.get("perms", [])) > 0:
        c = copy.deepcopy(sc)
        c["perms"] = c["perms"][:-1]
        yield c


def _rows_from_elements(sc):
    rows = []
    for T in sc["times"]:
        mine = [_text(e) for e in sc["elements"] if e["row_t"] == T]
        rows.append([_fmt(T), ", ".join(mine) if mine else "n/a"])
    return rows


# ------------------------------------------------------------------------------------------- reference simulation
def simulate(elements, row_times):
    """Discrete-event reference: returns (time points, per time point {base, context, rest}, processes)."""
    tps = sorted(set(row_times) | {e["t"] for e in elements})
    idx = {T: i for i, T in enumerate(tps)}
    q = []
    for n, e in enumerate(elements):
        heapq.heappush(q, (e["t"], n, e))
    open_ = {}
    procs = []     # {start, end (tp index or len), content canon}
    rest = [[] for _ in tps]
    while q:
        T, n, e = heapq.heappop(q)
        i = idx[T]
        if e["kind"] == "plain":
            rest[i].append(e["tag"])
        elif e["kind"] == "onset":
            key = e["key"].casefold()
            if key in open_:
                open_[key]["end"] = i
            kids = ["Def/" + e.get("spell", e["key"])] + ([[e["inner"]]] if e.get("inner") else [])
            p = {"start": i, "end": len(tps), "content": vocab.canon(kids), "key": key}
            procs.append(p)
            open_[key] = p
        elif e["kind"] == "offset":
            key = e["key"].casefold()
            if key in open_:
                open_.pop(key)["end"] = i
        else:
            end_time = T + e["dur"]
            j = len(tps)
            for k, Tk in enumerate(tps):
                if Tk >= end_time:
                    j = k
                    break
            procs.append({"start": i, "end": j, "content": vocab.canon([list(e["content"])]), "timer": True})
    points = []
    for i, T in enumerate(tps):
        base = sorted(p["content"] for p in procs if p["start"] == i)
        ctx = sorted(p["content"] for p in procs if p["start"] < i < p["end"])
        points.append({"t": T, "base": base, "context": ctx, "rest": vocab.canon(rest[i])})
    return tps, points, procs


_DROP = ("onset", "offset", "duration/", "delay/")


def _proc_canon(item):
    """Canonical content of one process rendered by the library (a top-level tag or group of base/contexts)."""
    kids = item if isinstance(item, list) else [item]

    def strip(xs):
        out = []
        for x in xs:
            if isinstance(x, list):
                out.append(strip(x))
            elif not x.casefold().startswith(_DROP):
                out.append(x)
        return out
    return vocab.canon(strip(kids))


def _procs_of(text):
    if not text:
        return []
    return sorted(_proc_canon(it) for it in vocab.parse(text))


# ------------------------------------------------------------------------------------------- execution
def execute(sc, script=None):
    W = _init()
    violations, probes, trace = [], {}, []

    def probe(k, n=1):
        probes[k] = probes.get(k, 0) + n

    def viol(clause, detail, sig):
        violations.append(Violation(clause, detail, sig).record(PROP))

    rows = sc["rows"]
    row_times = [float(r[0]) for r in rows]
    tps, points, procs = simulate(sc["elements"], row_times)
    _probes(sc, tps, procs, probe, row_times)
    obs = _run(W, rows)
    trace.append(obs if isinstance(obs, str) else obs["digest"])
    nontrivial = any(p["context"] for p in points)
    if isinstance(obs, str):
        viol("no-exception", "EventManager on the valid time-ordered file %s raised %s" % (rows, obs), "raises-" + obs.split(":")[0])
        return _result(sc, violations, probes, trace, nontrivial)
    _compare(sc, rows, tps, points, procs, obs, viol, probe)
    if any(("Task" in r[1] or "Condition-variable" in r[1]) for r in rows):
        probe("type_filtered_view_then_reread")
    if obs["hed_after_filtered_view"] != obs["hed"]:
        k = [i for i, (a, b) in enumerate(zip(obs["hed"], obs["hed_after_filtered_view"])) if a != b][0]
        viol("remainder", "after a type-filtered HedTagManager was built on the same EventManager, the remaining annotation of "
             "entry %d reads %r (before: %r)" % (k, obs["hed_after_filtered_view"][k], obs["hed"][k]),
             "remainder-changed-by-filtered-view")
    elif any("Event-context" in o for o in obs["objs_no_context"]):
        k = [i for i, o in enumerate(obs["objs_no_context"]) if "Event-context" in o][0]
        viol("remainder", "get_hed_objs(include_context=False) after a call with context still holds an Event-context group: %r"
             % obs["objs_no_context"][k], "context-in-contextless-view")
    elif obs["objs_same_manager_again"] != obs["objs"]:
        k = [i for i, (a, b) in enumerate(zip(obs["objs"], obs["objs_same_manager_again"])) if a != b][0]
        viol("remainder", "the same HedTagManager asked again gives %r, the first time %r" % (obs["objs_same_manager_again"][k], obs["objs"][k]),
             "same-view-asked-twice-differs")
    elif obs["objs_again"] != obs["objs"]:
        viol("remainder", "a second unfiltered HedTagManager on the same EventManager gives other objects than the first",
             "second-view-differs")
    # ---- reordering fault
    for ps in sc.get("perms", []):
        if violations:
            break
        g = Gen(ps)
        perm = g.shuffled(list(range(len(rows))))
        prows = [rows[i] for i in perm]
        monotone = all(float(a[0]) <= float(b[0]) for a, b in zip(prows, prows[1:]))
        o2 = _run(W, prows)
        trace.append([perm, o2 if isinstance(o2, str) else o2["digest"]])
        if not monotone:
            probe("reorder_rejected")
            if not (isinstance(o2, str) and o2.startswith("HedFileError")):
                viol("reorder-rejected", "rows in order %s have decreasing onsets %s but EventManager %s"
                     % (perm, [r[0] for r in prows], "accepted the file" if not isinstance(o2, str) else "raised " + o2),
                     "unordered-file-accepted" if not isinstance(o2, str) else "unordered-file-raises-" + o2.split(":")[0])
        else:
            probe("reorder_equal_onsets_accepted")
            if isinstance(o2, str):
                viol("reorder-rejected", "permuting only equal-onset rows (%s) made EventManager raise %s" % (perm, o2),
                     "equal-onset-permutation-rejected")
            else:
                _compare(sc, prows, tps, points, procs, o2, viol, probe, tag="after permuting equal-onset rows: ")
    # ---- a decrease hidden behind a row without onset: t[j], n/a, t[j-1] with t[j] > t[j-1] is still not non-decreasing
    if not violations and len(rows) >= 2 and sc.get("perms"):
        g = Gen(sc["perms"][0] ^ 0x5bd1)
        cands = [j for j in range(1, len(rows)) if float(rows[j][0]) > float(rows[j - 1][0])]
        if cands:
            j = g.pick(cands)
            prows = rows[:j - 1] + [rows[j], ["n/a", g.pick(["Green", "n/a"])], rows[j - 1]] + rows[j + 1:]
            o3 = _run(W, prows)
            probe("na_onset_row_between_decreasing_onsets")
            trace.append(["na-between", j, o3 if isinstance(o3, str) else o3["digest"]])
            if not (isinstance(o3, str) and o3.startswith("HedFileError")):
                viol("reorder-rejected", "onsets %s (a decrease across a row without onset) but EventManager %s"
                     % ([r[0] for r in prows], "accepted the file" if not isinstance(o3, str) else "raised " + o3),
                     "unordered-file-accepted" if not isinstance(o3, str) else "unordered-file-raises-" + o3.split(":")[0])
    return _result(sc, violations, probes, trace, nontrivial)


def _run(W, rows):
    df = W["pd"].DataFrame(rows, columns=["onset", "HED"])
    try:
        em = W["EventManager"](W["TabularInput"](df), W["schema"], extra_defs=W["dd"])
        onsets = [float(x) for x in em.onsets]
        tm = W["HedTagManager"](em)
        objs = tm.get_hed_objs(include_context=True)
        out = {"onsets": onsets, "base": list(em.base), "contexts": list(em.contexts), "hed": [str(h) for h in em.hed_strings],
               "events": [[(e.start_index, e.end_index) for e in evs] for evs in em.event_list],
               "objs": [str(o) if o is not None else "" for o in objs]}
        # history on the same tag manager: without context, then with context again
        out["objs_no_context"] = [str(o) if o is not None else "" for o in tm.get_hed_objs(include_context=False)]
        out["objs_same_manager_again"] = [str(o) if o is not None else "" for o in tm.get_hed_objs(include_context=True)]
        # history on the same manager: a type-filtered view is built from it, then it is read again - the remaining
        # annotation of every point is kept, and a second unfiltered view equals the first
        tm2 = W["HedTagManager"](em, remove_types=["Condition-variable", "Task"])
        tm2.get_hed_objs(include_context=True)
        out["hed_after_filtered_view"] = [str(h) for h in em.hed_strings]
        out["objs_again"] = [str(o) if o is not None else "" for o in W["HedTagManager"](em).get_hed_objs(include_context=True)]
        out["digest"] = core.digest(out)
        return out
    except W["HedFileError"] as e:
        return "HedFileError: %s" % (getattr(e, "code", ""),)
    except Exception as e:  # noqa
        return "%s: %s" % (type(e).__name__, str(e)[:200])


def _compare(sc, rows, tps, points, procs, obs, viol, probe, tag=""):
    onsets = obs["onsets"]
    if any(a > b for a, b in zip(onsets, onsets[1:])):
        viol("time-order", "%sEventManager.onsets is not non-decreasing: %s" % (tag, onsets), "onsets-not-sorted")
        return
    if sorted(set(onsets)) != tps:
        viol("time-order", "%sEventManager.onsets has time points %s, the history has %s (file %s)"
             % (tag, sorted(set(onsets)), tps, rows), "time-points-differ")
        return
    first = {}
    for i, T in enumerate(onsets):
        first.setdefault(T, i)
    if len(onsets) != len(set(onsets)):
        probe("equal_onset_rows")
    for k, pt in enumerate(points):
        i = first[pt["t"]]
        got_ctx = _procs_of(obs["contexts"][i])
        if got_ctx != pt["context"]:
            viol("context", "%sfile %s: at t=%s the context is %r but the processes ongoing then are %s"
                 % (tag, rows, pt["t"], obs["contexts"][i], [_show(c) for c in pt["context"]]),
                 "context-%s" % ("extra" if len(got_ctx) > len(pt["context"]) else "missing" if len(got_ctx) < len(pt["context"]) else "differs"))
            return
        if pt["context"]:
            probe("context_nonempty_points")
        got_base = _procs_of(obs["base"][i])
        if got_base != pt["base"]:
            viol("base", "%sfile %s: at t=%s the started processes are listed as %r, the history starts %s there"
                 % (tag, rows, pt["t"], obs["base"][i], [_show(c) for c in pt["base"]]), "base-differs")
            return
        try:
            got_rest = vocab.canon(vocab.parse(obs["hed"][i])) if obs["hed"][i] else ()
        except vocab.HedParseError:
            got_rest = None
        if got_rest != pt["rest"]:
            viol("remaining-annotation", "%sfile %s: at t=%s the remaining annotation is %r, expected the plain tags %s"
                 % (tag, rows, pt["t"], obs["hed"][i], _show(pt["rest"])), "rest-differs")
            return
        has_ctx = "event-context" in obs["objs"][i].casefold()
        if has_ctx != bool(pt["context"]):
            viol("context", "%sfile %s: at t=%s get_hed_objs gives %r but the context is %s"
                 % (tag, rows, pt["t"], obs["objs"][i], "non-empty" if pt["context"] else "empty"), "event-context-group-presence")
            return
        if has_ctx:
            # (Event-context, (process, process, ...)): the processes inside must be exactly the model's context
            got_ec = None
            try:
                for it in vocab.parse(obs["objs"][i]):
                    if isinstance(it, list) and any(isinstance(x, str) and x.casefold() == "event-context" for x in it):
                        inner = [x for x in it if isinstance(x, list)]
                        got_ec = sorted(_proc_canon(p) for p in (inner[0] if inner else []))
            except vocab.HedParseError:
                got_ec = None
            if got_ec != pt["context"]:
                viol("context", "%sfile %s: at t=%s the Event-context group of get_hed_objs is %r but the ongoing processes are %s"
                     % (tag, rows, pt["t"], obs["objs"][i], [_show(c) for c in pt["context"]]), "event-context-group-content")
                return
    # event list indices
    want = sorted((first[tps[p["start"]]], first[tps[p["end"]]] if p["end"] < len(tps) else len(onsets)) for p in procs)
    got = sorted((s, e) for evs in obs["events"] for (s, e) in evs)
    if got != want:
        viol("event-list", "%sfile %s: event_list has (start,end) indices %s, the history gives %s" % (tag, rows, got, want),
             "event-indices-differ")


def _show(c):
    return core.canon(c)


def _probes(sc, tps, procs, probe, row_times):
    for e in sc["elements"]:
        if e["kind"] == "duration":
            end = e["t"] + e["dur"]
            if end in tps:
                probe("duration_ends_exactly_on_timepoint")
            elif end > tps[-1]:
                probe("duration_beyond_last_row")
            else:
                probe("duration_between_timepoints")
            if e["unit"] == "ms":
                probe("unit_ms")
            if e["unit"] == "minute":
                probe("unit_minute")
            if e.get("delay"):
                probe("delay_shifted_duration")
        if e["kind"] == "onset" and e.get("delay"):
            probe("delay_shifted_onset")
        if e.get("delay") and e["t"] not in row_times:
            probe("delay_creates_new_timepoint")
    keys = {}
    for p in procs:
        if "key" in p:
            if p["end"] == len(tps):
                probe("process_left_open")
            keys.setdefault(p["key"], []).append(p)
    for k, ps in keys.items():
        for a, b in zip(ps, ps[1:]):
            if a["end"] == b["start"]:
                probe("restart_of_open_process")


def _result(sc, violations, probes, trace, nontrivial):
    seen, uniq = set(), []
    for v in violations:
        if v["signature"] not in seen:
            seen.add(v["signature"])
            uniq.append(v)
    return {"violations": uniq, "digest": core.digest([sc, trace]), "hdigest": core.digest(sc), "rdigest": core.digest(trace),
            "decisions": [], "nontrivial": nontrivial, "probes": probes, "faults": {}, "steps": len(trace), "sim_s": 0.0,
            "states": [core.digest(t) for t in trace[-2:]], "sched": core.digest(sc["rows"]),
            "summary": {"rows": len(sc["rows"]), "elements": len(sc["elements"])}}
