"""C09 - Definitions expand to their declared content and shrink back losslessly.

History machine: a pool of live HedString objects sharing one DefinitionDict; a seeded sequence of
expand / shrink / copy / validate / str / get_as_short / get_as_long / sorted / remove_definitions
and the stateless column variants is executed on the REAL objects and, in lock-step, on an immutable
reference tree; after every operation every live object is compared with its model tree (unordered,
case-folded).  A second scenario kind checks the acceptance rules of the definition dictionary.
See DESIGN.md 4/C09.
"""
import copy

from sim import core
from sim.core import Gen, Violation
from gen import vocab

PROP = "C09"
LEVEL = "exploration"
HASH_VARIANTS = 1
RUNS = {"quick": 6000, "thorough": 1000000}
WALL_LIMIT = {"quick": 1200, "thorough": 5 * 3600}
PROBES = ["expand_twice", "shrink_after_expand", "copy_then_diverge", "validate_in_expanded_state",
          "handwritten_exact", "handwritten_permuted", "handwritten_altered", "placeholder_def_used", "nested_def_depth2plus",
          "same_def_twice_in_one_string", "acceptance_rejected", "acceptance_duplicate", "df_expand", "df_shrink",
          "remove_definitions", "several_definitions_in_one_string", "valid_definition_after_rejected_one_in_string",
          "dictionaries_merged", "misused_def_validated", "schema_under_namespace_prefix"]
RULE = ("Each run generates 1-4 definitions (with/without '/#', nested content, unit-carrying placeholder) and 1-3 "
        "annotations using Def/Name[/v] at depth 0-3 plus hand-written Def-expand groups (exact, sibling-permuted, "
        "altered), then executes 4-20 seeded operations over the pool of live objects; every 8th run is an acceptance "
        "scenario (seeded accepted and rejectable definition strings, one or several per annotation string, then two "
        "dictionaries built from the accepted halves are merged twice - list, validator or single form - with additions "
        "to the merged object in between).  Non-trivial: the history contains a repeated "
        "expand, a shrink after an expand, or an operation on an object after it was copied.  Distinct = distinct "
        "sha-256 of (scenario, per-step library renderings).")
COMPONENTS = {"real": ["HedString.expand_defs/shrink_defs/copy/remove_definitions/sorted/get_as_*", "HedTag.expandable/expanded",
                       "HedGroup.replace", "DefinitionDict", "DefinitionEntry.get_definition", "DefValidator via HedValidator.validate",
                       "hed.models.df_util.expand_defs/shrink_defs", "schema 8.3.0 loaded from the bundled XML"],
              "stub": []}
ASSUMPTIONS = ["sibling order and letter case of tags are not compared (statement: 'up to sibling order')",
               "shrink_defs shrinks every Def-expand group blindly, as its docstring documents",
               "only DEF_EXPAND_INVALID is judged among validation codes"]

_W = {}


def _init():
    if _W:
        return _W
    import warnings
    warnings.simplefilter("ignore")
    from hed import HedString, load_schema_version
    from hed.models.definition_dict import DefinitionDict
    from hed.validator import HedValidator
    from hed.models import df_util
    import pandas as pd
    import os
    import tempfile
    from hed.schema import hed_cache
    repo = os.environ.get("VERIF_REPO", "/repo")
    from hed.schema import load_schema
    schema = load_schema(os.path.join(repo, "hed/schema/schema_data/HED8.3.0.xml"))
    schema_ns = load_schema(os.path.join(repo, "hed/schema/schema_data/HED8.3.0.xml"), schema_namespace="ts:")
    names = {n for n, _ in vocab.load()["plain"]}
    _W.update(HedString=HedString, DefinitionDict=DefinitionDict, HedValidator=HedValidator, df_util=df_util, pd=pd,
              schema=schema, schema_ns=schema_ns, plain=[t for t in vocab.SAFE_PLAIN if t in names])
    del hed_cache, tempfile, load_schema_version
    return _W


PLAIN = ["Red", "Blue", "Green", "Square", "Circle", "Triangle", "Cross", "Face", "Yellow", "Black", "White", "Star",
         "Arrow", "Hand", "Foot"]
VALUE = [("Age/#", ["5", "23", "41"]), ("Label/#", ["abc", "Tr1", "x9", "TR1"]), ("ID/#", ["77", "a1"]),
         ("Frequency/# Hz", ["3", "12.5"]), ("Distance/# m", ["2", "0.5"])]
NAMES = ["Alpha", "beta", "Gamma7", "Delta-x", "MyDef"]


# ------------------------------------------------------------------------------------------- model trees
# node: ["t", text] | ["g", [nodes]] | ["d", name, value|None] | ["x", name, value|None]
_NS = ""      # schema namespace prefix of the current run ("" or "ts:"): every tag is written with it


def render(node):
    k = node[0]
    if k == "t":
        return _NS + node[1]
    if k == "d":
        return _NS + "Def/%s%s" % (node[1], "/" + node[2] if node[2] is not None else "")
    if k == "x":
        return _NS + "Def-expand/%s%s" % (node[1], "/" + node[2] if node[2] is not None else "")
    return "(" + ", ".join(render(c) for c in node[1]) + ")"


def render_top(nodes):
    return ", ".join(render(n) for n in nodes)


def subst(node, value):
    if node[0] == "t":
        return ["t", node[1].replace("#", value)] if value is not None else node
    if node[0] == "g":
        return ["g", [subst(c, value) for c in node[1]]]
    return node


def m_expand(nodes, defs):
    out = []
    for n in nodes:
        if n[0] == "d":
            d = defs.get(n[1].casefold())
            if d is not None and (d["takes_value"] == (n[2] is not None)):
                kids = [["x", n[1], n[2]]]
                if d["content"] is not None:
                    kids.append(subst(d["content"], n[2]))
                out.append(["g", kids])
            else:
                out.append(n)
        elif n[0] == "g":
            out.append(["g", m_expand(n[1], defs)])
        else:
            out.append(n)
    return out


def m_shrink(nodes):
    out = []
    for n in nodes:
        if n[0] == "g":
            xs = [c for c in n[1] if c[0] == "x"]
            if xs:
                out.append(["d", xs[0][1], xs[0][2]])
            else:
                out.append(["g", m_shrink(n[1])])
        else:
            out.append(n)
    return out


def m_remove_definitions(nodes):
    return [n for n in nodes if not (n[0] == "g" and any(c[0] == "t" and c[1].lower().startswith("definition/") for c in n[1]))]


def m_canon(nodes):
    return vocab.canon(vocab.parse(render_top(nodes)))


def m_bad_expands(nodes, defs):
    """Number of Def-expand groups whose content differs from the declared expansion (up to sibling order)."""
    bad = 0
    for n in nodes:
        if n[0] == "g":
            xs = [c for c in n[1] if c[0] == "x"]
            if xs:
                x = xs[0]
                d = defs.get(x[1].casefold())
                if d is not None and d["takes_value"] == (x[2] is not None):
                    want = [["x", x[1], x[2]]] + ([subst(d["content"], x[2])] if d["content"] is not None else [])
                    if m_canon([["g", want]]) != m_canon([n]):
                        bad += 1
                elif d is not None:
                    bad += 1          # a value where none is taken, or none where one is required
            else:
                bad += m_bad_expands(n[1], defs)
    return bad


def m_misused_defs(nodes, defs):
    """Number of Def tags whose value does not fit their definition (reported, never expanded)."""
    c = 0
    for n in nodes:
        if n[0] == "d":
            d = defs.get(n[1].casefold())
            if d is not None and d["takes_value"] != (n[2] is not None):
                c += 1
        elif n[0] == "g":
            c += m_misused_defs(n[1], defs)
    return c


def count_nodes(nodes, kind):
    c = 0
    for n in nodes:
        if n[0] == kind:
            c += 1
        if n[0] == "g":
            c += count_nodes(n[1], kind)
    return c


# ------------------------------------------------------------------------------------------- generation
def _gen_content(g, depth=0, placeholder=None):
    n = g.randint(1, 3)
    kids = [["t", t] for t in g.sample(PLAIN, n)]
    if depth < 2 and g.chance(0.45):
        kids.insert(g.randrange(len(kids) + 1), _gen_content(g, depth + 1))
        if g.chance(0.4):
            # a second sibling group: the canonical order of siblings then depends on their (sorted) insides
            kids.insert(g.randrange(len(kids) + 1), _gen_content(g, depth + 1))
    node = ["g", kids]
    return node


def _place_placeholder(g, content, tag):
    groups = []

    def collect(n):
        if n[0] == "g":
            groups.append(n)
            for c in n[1]:
                collect(c)
    collect(content)
    grp = g.pick(groups)
    grp[1].insert(g.randrange(len(grp[1]) + 1), ["t", tag])


def _gen_defs(g):
    defs = {}
    for name in g.sample(NAMES, g.randint(1, 4)):
        tv = g.chance(0.5)
        if tv:
            content = _gen_content(g)
            tag, vals = g.pick(VALUE)
            _place_placeholder(g, content, tag)
            if g.chance(0.5):
                # a sibling of the same tag with a fixed value: plugging in the value can change the sibling order
                _place_placeholder(g, content, tag.replace("#", g.pick(["m5", "20", "b2"])))
            defs[name] = {"name": name, "takes_value": True, "content": content, "values": vals}
        else:
            content = _gen_content(g) if g.chance(0.85) else None
            defs[name] = {"name": name, "takes_value": False, "content": content, "values": []}
    return defs


def _def_string(d):
    nm = d["name"] + ("/#" if d["takes_value"] else "")
    if d["content"] is None:
        return "(%sDefinition/%s)" % (_NS, nm)
    return "(%sDefinition/%s, %s)" % (_NS, nm, render(d["content"]))


def _case_variant(g, name):
    r = g.random()
    if r < 0.6:
        return name
    if r < 0.8:
        return name.upper()
    return name.lower()


def _gen_annotation(g, defs, stats):
    names = sorted(defs)

    def occurrence():
        d = defs[g.pick(names)]
        nm = _case_variant(g, d["name"])
        v = g.pick(d["values"]) if d["takes_value"] else None
        if g.chance(0.08):
            # misuse: a value on a definition that takes none (also a label-only one), or none where one is required -
            # never expanded, reported by validation
            v = None if d["takes_value"] else g.pick(["7", "x1"])
            stats.append("misused")
        r = g.random()
        if r < 0.7:
            return ["d", nm, v]
        kids = [["x", nm, v]]
        if d["content"] is not None:
            c = subst(copy.deepcopy(d["content"]), v)
            if r < 0.8:
                kind = "exact"
            elif r < 0.9:
                kind = "permuted"
                _permute(g, c)
            else:
                kind = "altered"
                if g.chance(0.3):
                    kids.append(["t", g.pick(["Purple", "Orange"])])     # an extra tag beside the content group
                else:
                    _alter(g, c)
            kids.insert(g.randrange(1, len(kids) + 1), c)
        else:
            kind = "exact"
        stats.append(kind)
        return ["g", kids]

    def group(depth):
        kids = []
        for _ in range(g.randint(1, 3)):
            r = g.random()
            if r < 0.45:
                kids.append(["t", g.pick(PLAIN)])
            elif r < 0.8 or depth >= 3:
                kids.append(occurrence())
            else:
                kids.append(group(depth + 1))
        return ["g", kids]

    top = []
    for _ in range(g.randint(1, 4)):
        r = g.random()
        if r < 0.3:
            top.append(["t", g.pick(PLAIN)])
        elif r < 0.65:
            top.append(occurrence())
        else:
            top.append(group(1))
    if g.chance(0.15):
        top.insert(g.randrange(len(top) + 1), ["g", [["t", "Definition/Zeta"], ["g", [["t", "Blue"]]]]])
    return top


def _permute(g, node):
    if node[0] == "g":
        g.shuffle(node[1])
        for c in node[1]:
            _permute(g, c)


def _alter(g, node):
    leaves = []

    def collect(n):
        if n[0] == "g":
            for i, c in enumerate(n[1]):
                if c[0] == "t":
                    leaves.append((n, i))
                collect(c)
    collect(node)
    if not leaves:
        node[1].append(["t", "Purple"])
        return
    grp, i = g.pick(leaves)
    r = g.random()
    if r < 0.5:
        grp[1][i] = ["t", "Purple"]
    elif r < 0.75 and len(grp[1]) > 1:
        del grp[1][i]
    else:
        grp[1].append(["t", "Orange"])


OPS = ["expand", "expand", "expand", "shrink", "shrink", "copy", "validate", "validate", "str", "short", "long", "sorted",
       "remove_definitions", "df_expand", "df_shrink"]

REJECTABLE = [
    ("two-groups", "(Definition/{n}, (Red), (Blue))"),
    ("two-placeholders", "(Definition/{n}/#, (Age/#, Label/#))"),
    ("no-placeholder", "(Definition/{n}/#, (Red, Blue))"),
    ("placeholder-unexpected", "(Definition/{n}, (Age/#, Blue))"),
    ("two-placeholders-without-value-name", "(Definition/{n}, (Age/#, Label/#))"),
    ("three-placeholders-without-value-name", "(Definition/{n}, (Age/#, (Label/#, ID/#)))"),
    ("name-with-slash", "(Definition/{n}/Sub, (Red))"),
    ("inner-def", "(Definition/{n}, (Def/Other, Blue))"),
    ("inner-def-expand", "(Definition/{n}, ((Def-expand/Other, (Red)), Blue))"),
    ("inner-definition", "(Definition/{n}, (Definition/Inner, (Red)))"),
    ("extra-tag", "(Definition/{n}, Green, (Red))"),
    ("placeholder-on-non-value-tag", "(Definition/{n}/#, (Red/#, Blue))"),
    ("placeholder-no-content", "(Definition/{n}/#)"),
]


def generate(run_index, seed, tier):
    g = Gen(seed)
    if run_index % 8 == 7:
        # acceptance scenario
        items = []
        used = []
        for name in g.sample(NAMES + ["Omega", "Kappa2"], g.randint(2, 6)):
            r = g.random()
            if r < 0.5:
                d = {"name": name, "takes_value": g.chance(0.5), "content": None, "values": []}
                d["content"] = _gen_content(g)
                if d["takes_value"]:
                    _place_placeholder(g, d["content"], g.pick(VALUE)[0])
                elif g.chance(0.2):
                    d["content"] = None
                items.append({"text": _def_string(d), "expect": "accept", "name": name})
                used.append(name)
            elif r < 0.85 or not used:
                kind, tpl = g.pick(REJECTABLE)
                items.append({"text": tpl.format(n=name), "expect": "reject", "kind": kind, "name": name})
            else:
                dup = _case_variant(g, g.pick(used))
                items.append({"text": "(Definition/%s, (Orange))" % dup, "expect": "duplicate", "name": dup})
        # several definitions may arrive in ONE annotation string (each is judged on its own)
        for i in range(1, len(items)):
            items[i]["join"] = g.chance(0.35)
        return {"kind": "acceptance", "items": items, "merge_split": g.randrange(0, len(items) + 1),
                "merge_via": g.pick(["list", "list", "validator", "single"])}
    defs = _gen_defs(g)
    stats = []
    anns = [_gen_annotation(g, defs, stats) for _ in range(g.randint(1, 3))]
    ops = []
    n_live = len(anns)
    for _ in range(g.randint(4, 20)):
        op = g.pick(OPS)
        ops.append([op, g.randrange(n_live)])
        if op == "copy":
            n_live += 1
    # 1 run in 7 uses the schema under a namespace prefix: every tag, Def and Definition is then written ts:...
    return {"kind": "history", "defs": defs, "anns": anns, "ops": ops, "hw": stats, "ns": "ts:" if g.chance(0.15) else ""}


def shrink(sc):
    if sc["kind"] == "acceptance":
        for i in range(len(sc["items"])):
            if len(sc["items"]) > 1:
                c = copy.deepcopy(sc)
                del c["items"][i]
                yield c
        return
    ops = sc["ops"]
    # drop ops (keeping indices valid: a dropped copy invalidates later references -> remap)
    for i in range(len(ops)):
        c = copy.deepcopy(sc)
        del c["ops"][i]
        if _valid_ops(c):
            yield c
    # drop annotations not referenced
    for i in range(len(sc["anns"])):
        if len(sc["anns"]) > 1:
            c = copy.deepcopy(sc)
            del c["anns"][i]
            c["ops"] = [[o, (j - 1 if j > i else j)] for o, j in c["ops"] if j != i]
            if _valid_ops(c):
                yield c
    # simplify annotation: drop a top-level node, or drop a child somewhere
    for i, ann in enumerate(sc["anns"]):
        for path in _paths(ann):
            c = copy.deepcopy(sc)
            if _del_path(c["anns"][i], path):
                yield c
    # simplify definitions: drop unused, flatten content
    for name in list(sc["defs"]):
        c = copy.deepcopy(sc)
        del c["defs"][name]
        if c["defs"]:
            yield c
    for name, d in sc["defs"].items():
        if d["content"] is not None:
            for path in _paths(d["content"][1]):
                c = copy.deepcopy(sc)
                if _del_path(c["defs"][name]["content"][1], path):
                    if not d["takes_value"] or "#" in render(c["defs"][name]["content"]):
                        yield c


def _valid_ops(sc):
    n = len(sc["anns"])
    if n == 0:
        return False
    for op, j in sc["ops"]:
        if j >= n or j < 0:
            return False
        if op == "copy":
            n += 1
    return True


def _paths(nodes, prefix=()):
    out = []
    for i, n in enumerate(nodes):
        out.append(prefix + (i,))
        if n[0] == "g":
            out += _paths(n[1], prefix + (i,))
    return out


def _del_path(nodes, path):
    cur = nodes
    for i in path[:-1]:
        cur = cur[i][1]
    if len(cur) <= 1:
        return False
    del cur[path[-1]]
    return True


# ------------------------------------------------------------------------------------------- execution
def _lib_canon(text):
    return vocab.canon(vocab.parse(text))


_CASED_VALUES = {"tr1"}      # placeholder values of VALUE that exist in more than one letter case


def _cased_values(tree):
    """Case-exact multiset of the final path segments that are one of the case-variant placeholder values: the tree
    comparison folds case, but 'with # replaced by v' means v as written, also after another spelling was expanded."""
    out = []
    for it in tree:
        if isinstance(it, list):
            out.extend(_cased_values(it))
        else:
            seg = it.strip().rsplit("/", 1)[-1].strip()
            if seg.casefold() in _CASED_VALUES:
                out.append(seg)
    return sorted(out)


def execute(sc, script=None):
    global _NS
    _NS = ""
    if sc.get("ns"):
        _NS = sc["ns"]
        try:
            return _execute_history(sc)
        finally:
            _NS = ""
    return _execute_history(sc)


def _execute_history(sc):
    W = _init()
    if sc["kind"] == "acceptance":
        return _execute_acceptance(W, sc)
    HedString, schema = W["HedString"], (W["schema_ns"] if sc.get("ns") else W["schema"])
    violations = []
    probes = {}
    trace = []

    def probe(k, n=1):
        probes[k] = probes.get(k, 0) + n

    def viol(clause, detail, sig):
        violations.append(Violation(clause, detail, sig).record(PROP))

    defs = {k.casefold(): v for k, v in sc["defs"].items()}
    dd = W["DefinitionDict"]([_def_string(d) for _, d in sorted(sc["defs"].items())], schema)
    if set(dd.defs) != set(defs):
        raise RuntimeError("generator produced a definition the library rejects: %s vs %s" % (sorted(dd.defs), sorted(defs)))
    for k in sc.get("hw", []):
        probe("handwritten_" + k)
    if sc.get("ns"):
        probe("schema_under_namespace_prefix")
    if any(d["takes_value"] for d in defs.values()):
        probe("placeholder_def_used")
    live = []      # [lib object, model nodes, flags]
    for ann in sc["anns"]:
        text = render_top(ann)
        live.append([HedString(text, schema, dd), ann, {"expanded_once": False, "copied": False}])
        if count_nodes(ann, "d") + count_nodes(ann, "x") != len({id(x) for x in ann}) and _same_def_twice(ann):
            probe("same_def_twice_in_one_string")
    nontrivial = False

    def compare_all(step, op):
        for idx, (L, m, fl) in enumerate(live):
            try:
                txt = str(L)
            except RecursionError:
                viol("no-exception", "str() of object %d raises RecursionError after step %d (%s): the tree became cyclic"
                     % (idx, step, op), "cyclic-tree-after-%s" % op)
                return False
            except Exception as e:  # noqa
                viol("no-exception", "str() of object %d raised %s after step %d (%s)" % (idx, type(e).__name__, step, op),
                     "str-raises-%s-after-%s" % (type(e).__name__, op))
                return False
            trace.append(txt)
            try:
                got = _lib_canon(txt)
            except vocab.HedParseError as e:
                viol("tree-equals-model", "object %d renders as unparsable text %r after step %d (%s): %s" % (idx, txt, step, op, e),
                     "unparsable-rendering-after-%s" % op)
                return False
            want = m_canon(m)
            if got != want:
                viol("tree-equals-model", "after step %d (%s) object %d is %r but the reference tree is %r"
                     % (step, op, idx, txt, render_top(m)), "differs-after-%s%s" % (op, "-on-other-object" if idx != cur_idx[0] else ""))
                return False
            if _cased_values(vocab.parse(txt)) != _cased_values(vocab.parse(render_top(m))):
                viol("tree-equals-model", "after step %d (%s) object %d is %r but the reference tree is %r: a placeholder value "
                     "changed its letter case" % (step, op, idx, txt, render_top(m)), "value-case-differs-after-%s" % op)
                return False
        return True

    cur_idx = [0]
    if not compare_all(-1, "construct"):
        return _result(sc, violations, probes, trace, nontrivial)
    validator = W["HedValidator"](schema, dd)
    for step, (op, j) in enumerate(sc["ops"]):
        L, m, fl = live[j]
        cur_idx[0] = j
        try:
            if op == "expand":
                if fl["expanded_once"]:
                    probe("expand_twice")
                    nontrivial = True
                before = m_canon(m_expand(m, defs))
                L.expand_defs()
                live[j][1] = m_expand(m, defs)
                fl["expanded_once"] = True
                if fl["copied"]:
                    probe("copy_then_diverge")
                    nontrivial = True
                if count_nodes(m, "d") and _depth_of_defs(m) >= 2:
                    probe("nested_def_depth2plus")
                del before
            elif op == "shrink":
                if fl["expanded_once"]:
                    probe("shrink_after_expand")
                    nontrivial = True
                L.shrink_defs()
                live[j][1] = m_shrink(m)
                if fl["copied"]:
                    probe("copy_then_diverge")
            elif op == "copy":
                c = L.copy()
                live.append([c, copy.deepcopy(m), {"expanded_once": fl["expanded_once"], "copied": True}])
                fl["copied"] = True
            elif op == "validate":
                issues = validator.validate(L, allow_placeholders=False)
                n_bad = sum(1 for i in issues if i.get("code") == "DEF_EXPAND_INVALID")
                want_bad = m_bad_expands(m, defs)
                if count_nodes(m, "x"):
                    probe("validate_in_expanded_state")
                n_inv = sum(1 for i in issues if i.get("code") == "DEF_INVALID")
                want_inv = m_misused_defs(m, defs)
                if want_inv:
                    probe("misused_def_validated")
                if n_inv != want_inv:
                    viol("def-expand-validation", "validation of %r reports %d DEF_INVALID, but %d Def tags carry a value their "
                         "definition does not take / lack the one it requires" % (str(L), n_inv, want_inv),
                         "misused-def-not-reported" if n_inv < want_inv else "valid-def-reported")
                if n_bad != want_bad:
                    viol("def-expand-validation", "validation of %r reports %d DEF_EXPAND_INVALID but %d Def-expand groups differ "
                         "from their definition's expansion (up to sibling order)" % (str(L), n_bad, want_bad),
                         "rejects-valid-expansion" if n_bad > want_bad else "accepts-altered-expansion")
            elif op == "str":
                str(L)
            elif op == "short":
                t = L.get_as_short()
                if _lib_canon(t) != m_canon(m):
                    viol("tree-equals-model", "get_as_short gives %r, reference %r" % (t, render_top(m)), "get_as_short-differs")
            elif op == "long":
                L.get_as_long()
            elif op == "sorted":
                t = str(L.sorted())
                if _lib_canon(t) != m_canon(m):
                    viol("tree-equals-model", "sorted() gives %r, reference %r" % (t, render_top(m)), "sorted-differs")
            elif op == "remove_definitions":
                probe("remove_definitions")
                L.remove_definitions()
                live[j][1] = m_remove_definitions(m)
            elif op == "df_expand":
                probe("df_expand")
                # a column of several rows, the same text more than once, under non-default row labels
                s = W["pd"].Series([str(L), _NS + "Green", str(L), str(L)], index=[3, 0, 7, 5])
                W["df_util"].expand_defs(s, schema, dd)
                for lab in (3, 7, 5):
                    if _lib_canon(s[lab]) != m_canon(m_expand(m, defs)):
                        viol("tree-equals-model", "df_util.expand_defs: row %d of [text, Green, text, text] with text %r gives %r, "
                             "reference %r" % (lab, str(L), s[lab], render_top(m_expand(m, defs))), "df-expand-differs")
                        break
            elif op == "df_shrink":
                probe("df_shrink")
                s = W["pd"].Series([str(L)])
                W["df_util"].shrink_defs(s, schema)
                if _lib_canon(s[0]) != m_canon(m_shrink(m)):
                    viol("tree-equals-model", "df_util.shrink_defs(%r) gives %r, reference %r"
                         % (str(L), s[0], render_top(m_shrink(m))), "df-shrink-differs")
        except RecursionError:
            viol("no-exception", "step %d (%s on object %d) raises RecursionError" % (step, op, j), "RecursionError-in-%s" % op)
            break
        except Exception as e:  # noqa
            viol("no-exception", "step %d (%s on object %d) raised %s: %s" % (step, op, j, type(e).__name__, str(e)[:200]),
                 "%s-in-%s" % (type(e).__name__, op))
            break
        if violations or not compare_all(step, op):
            break
    return _result(sc, violations, probes, trace, nontrivial)


def _same_def_twice(ann):
    seen = []

    def walk(nodes):
        for n in nodes:
            if n[0] in ("d", "x"):
                seen.append(n[1].casefold())
            elif n[0] == "g":
                walk(n[1])
    walk(ann)
    return len(seen) != len(set(seen))


def _depth_of_defs(nodes, depth=0):
    best = -1
    for n in nodes:
        if n[0] == "d":
            best = max(best, depth)
        elif n[0] == "g":
            best = max(best, _depth_of_defs(n[1], depth + 1))
    return best


def _result(sc, violations, probes, trace, nontrivial):
    seen, uniq = set(), []
    for v in violations:
        if v["signature"] not in seen:
            seen.add(v["signature"])
            uniq.append(v)
    return {"violations": uniq, "digest": core.digest([sc, trace]), "hdigest": core.digest(sc), "rdigest": core.digest(trace),
            "decisions": [], "nontrivial": nontrivial, "probes": probes, "faults": {}, "steps": len(trace), "sim_s": 0.0,
            "states": [core.digest(t) for t in trace[-3:]], "sched": core.digest(sc.get("ops", [])),
            "summary": {"kind": sc["kind"], "ops": [o[0] for o in sc.get("ops", [])]}}


def _execute_acceptance(W, sc):
    HedString, schema = W["HedString"], W["schema"]
    violations, probes, trace = [], {}, []
    dd = W["DefinitionDict"]()
    accepted = {}
    groups = []
    for it in sc["items"]:
        if it.get("join") and groups:
            groups[-1].append(it)
        else:
            groups.append([it])
    for grp in groups:
        text = ", ".join(it["text"] for it in grp)
        if len(grp) > 1:
            probes["several_definitions_in_one_string"] = probes.get("several_definitions_in_one_string", 0) + 1
            kinds = [it["expect"] for it in grp]
            if "accept" in kinds[1:] and any(k != "accept" for k in kinds[:kinds.index("accept", 1)]):
                probes["valid_definition_after_rejected_one_in_string"] = \
                    probes.get("valid_definition_after_rejected_one_in_string", 0) + 1
        try:
            issues = dd.check_for_definitions(HedString(text, schema))
        except Exception as e:  # noqa
            violations.append(Violation("no-exception", "check_for_definitions(%r) raised %s: %s"
                                        % (text, type(e).__name__, str(e)[:200]),
                                        "acceptance-%s" % type(e).__name__).record(PROP))
            break
        trace.append([text, sorted(dd.defs), [i.get("code") for i in issues]])
        all_ok = all(it["expect"] == "accept" for it in grp)
        for it in grp:
            key = it["name"].casefold()
            if it["expect"] == "accept":
                accepted[key] = it["text"]
                if key not in dd.defs or (issues and all_ok):
                    violations.append(Violation("acceptance", "well-formed definition %r (in %r) was not accepted (issues %s)"
                                                % (it["text"], text, [i.get("code") for i in issues]),
                                                "valid-definition-rejected").record(PROP))
            elif it["expect"] == "reject":
                probes["acceptance_rejected"] = probes.get("acceptance_rejected", 0) + 1
                if (key in dd.defs and key not in accepted) or not issues:
                    violations.append(Violation("acceptance", "definition %r breaks rule %r but %s"
                                                % (it["text"], it["kind"], "was accepted" if key in dd.defs else "no issue was reported"),
                                                "invalid-definition-accepted-%s" % it["kind"]).record(PROP))
            else:
                probes["acceptance_duplicate"] = probes.get("acceptance_duplicate", 0) + 1
                stored = str(dd.defs[key].contents) if key in dd.defs else None
                if not issues:
                    violations.append(Violation("acceptance", "duplicate definition %r was not reported" % it["text"],
                                                "duplicate-not-reported").record(PROP))
                elif stored is not None and "Orange" in stored:
                    violations.append(Violation("acceptance", "duplicate definition %r replaced the first one" % it["text"],
                                                "duplicate-not-ignored").record(PROP))
        if set(dd.defs) != set(accepted):
            violations.append(Violation("acceptance", "dictionary holds %s, accepted so far %s" % (sorted(dd.defs), sorted(accepted)),
                                        "dictionary-content-differs").record(PROP))
        if violations:
            break
    if not violations:
        _merge_history(W, sc, violations, probes, trace)
    return _result(sc, violations, probes, trace, True)


def _merge_history(W, sc, violations, probes, trace):
    """Dictionaries built from two halves of the accepted definitions are merged (DefinitionDict([d1, d2]), a validator
    given both, or DefinitionDict(d1)), something more is added to the merged object, and the sources are used again:
    each source must still hold exactly what it accepted, and merging the same sources again gives the same report."""
    HedString, schema, DD = W["HedString"], W["schema"], W["DefinitionDict"]
    ok = [it for it in sc["items"] if it["expect"] == "accept"]
    k = min(sc.get("merge_split", 0), len(ok))
    parts = [ok[:k], ok[k:]]
    if not ok:
        return
    srcs, held = [], []
    try:
        for part in parts:
            d = DD()
            names = set()
            for it in part:
                if it["name"].casefold() not in names:
                    d.check_for_definitions(HedString(it["text"], schema))
                    names.add(it["name"].casefold())
            srcs.append(d)
            held.append(sorted(d.defs))
        # one name of the first half is defined again (differently) in the second: a reported duplicate on merging
        if parts[0] and sc.get("merge_via") != "single":
            nm = parts[0][0]["name"]
            if nm.casefold() not in srcs[1].defs:
                srcs[1].check_for_definitions(HedString("(Definition/%s, (Orange))" % nm, schema))
                held[1] = sorted(srcs[1].defs)
        via = sc.get("merge_via", "list")
        reports = []
        for _round in range(2):
            if via == "single":
                m = DD(srcs[0])
            elif via == "validator":
                v = W["HedValidator"](schema, def_dicts=[srcs[0], srcs[1]])
                m = v._def_validator
            else:
                m = DD([srcs[0], srcs[1]])
            reports.append(len(getattr(m, "issues", []) or []))
            m.check_for_definitions(HedString("(Definition/AddedLater%d, (Purple))" % _round, schema))
            probes["dictionaries_merged"] = probes.get("dictionaries_merged", 0) + 1
            for i, d in enumerate(srcs):
                if sorted(d.defs) != held[i]:
                    violations.append(Violation(
                        "acceptance", "after merging (%s) and adding to the merged dictionary, source dictionary %d holds %s "
                        "but accepted only %s" % (via, i, sorted(d.defs), held[i]), "merge-changes-source-dictionary").record(PROP))
                    return
        if reports[0] != reports[1]:
            violations.append(Violation("acceptance", "merging the same two dictionaries twice reported %d then %d issues"
                                        % (reports[0], reports[1]), "merge-report-not-repeatable").record(PROP))
        trace.append(["merge", via, held, reports])
    except Exception as e:  # noqa
        violations.append(Violation("no-exception", "merging definition dictionaries (%s) raised %s: %s"
                                    % (sc.get("merge_via"), type(e).__name__, str(e)[:200]),
                                    "merge-%s" % type(e).__name__).record(PROP))
