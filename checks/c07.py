"""C07 - File-level validation equals row-by-row string validation, with true locations.

Simulation axes (DESIGN.md 4/C07): the events file is a recorded log and the fault is REORDERING of
its records (seeded row permutations: adjacent swap, rotation, full shuffle); the row/column labels
come from a push/pop context stack that lives across rows, files and - when the caller passes one
handler - across calls (history axis: the same ErrorHandler is reused for a seeded subset of calls).
Step oracles: never raises; per row, error codes vs string-level validation of the row's assembled
annotation (equality for rows with error-free cells, superset of every cell's errors otherwise);
1-based row labels with the header counted; the originating column.
"""
import copy
import io
import json
import os
import shutil
import tempfile

from sim import core
from sim.core import Gen, Violation

PROP = "C07"
LEVEL = "exploration"
HASH_VARIANTS = 1
RUNS = {"quick": 2000, "thorough": 150000}
WALL_LIMIT = {"quick": 1200, "thorough": 5 * 3600}
PROBES = ["permutation_checked", "onsets_unordered_warning_expected", "handler_reused", "delay_group", "duration_group",
          "temporal_marker", "cell_with_defect", "row_equality_checked", "row_superset_checked", "na_cells", "no_onset_column",
          "spreadsheet_input_no_header", "tied_or_nonnumeric_onsets", "unit_spelling_variety", "cross_column_repeat",
          "rejected_unit_spelling_kept_as_defect", "delay_lands_on_another_timepoint", "sidecar_object_shared",
          "shared_sidecar_then_without_extra_definitions", "dataframe_with_non_default_row_labels", "warning_only_cell", "delayed_marker_unit_twin_checked",
          "row_without_numeric_onset_judged", "curly_brace_reference_in_sidecar", "xlsx_input"]
RULE = ("Each run generates an events table (onset column with distinct numeric values; ties / non-numeric in a sub-batch; "
        "1-3 HED-bearing columns: HED column, categorical, value) whose cells are valid or carry one seeded defect (unknown tag, "
        "unbalanced parenthesis, empty element, repeated tag), with Delay/Duration groups in every unit spelling string "
        "validation accepts, Onset/Offset markers with definitions and n/a cells; the file is validated, then 1-3 seeded row "
        "permutations of it, with one ErrorHandler reused for a seeded subset of the calls; 1 run in 8 uses SpreadsheetInput "
        "on a TSV file with or without header.  Non-trivial: a permutation that changes the order was validated and the file "
        "has at least one issue.  Distinct = distinct sha-256 of (scenario, issue lists).")
COMPONENTS = {"real": ["SpreadsheetValidator (all)", "BaseInput.validate / needs_sorting", "df_util.sort_dataframe_by_onsets/"
                       "split_delay_tags/filter_series_by_onset", "HedString.from_hed_strings", "ErrorHandler context stack",
                       "HedValidator (string level, used as differential oracle across entry points)", "TabularInput, SpreadsheetInput"],
              "stub": []}
ASSUMPTIONS = ["string-level validation (HedValidator.validate on the library's own assembled row text) is trusted as the per-row "
               "reference; C06 judges assembly", "only error-severity codes are compared for the per-row clause; column-structure "
               "and temporal codes are excluded from it as the statement says", "equality per row is asserted only for files with "
               "distinct numeric onsets"]

_W = {}


def _init():
    if _W:
        return _W
    import warnings
    warnings.simplefilter("ignore")
    import pandas as pd
    from hed import HedString, TabularInput, Sidecar, SpreadsheetInput
    from hed.schema import load_schema
    from hed.models.definition_dict import DefinitionDict
    from hed.validator import HedValidator
    from hed.errors import ErrorHandler
    repo = os.environ.get("VERIF_REPO", "/repo")
    schema = load_schema(os.path.join(repo, "hed/schema/schema_data/HED8.3.0.xml"))
    dd = DefinitionDict(["(Definition/A, (Red))", "(Definition/B/#, (Label/#))"], schema)
    base = tempfile.mkdtemp(prefix="verif-c07-%d-" % os.getpid(), dir="/dev/shm" if os.path.isdir("/dev/shm") else None)
    import atexit
    atexit.register(shutil.rmtree, base, True)
    _W.update(pd=pd, HedString=HedString, TabularInput=TabularInput, Sidecar=Sidecar, SpreadsheetInput=SpreadsheetInput,
              schema=schema, dd=dd, HedValidator=HedValidator, ErrorHandler=ErrorHandler, base=base, unit_ok={})
    return _W


PLAIN = ["Red", "Blue", "Green", "Square", "Circle", "Triangle", "Cross", "Face", "Yellow", "Black", "White", "Star"]
TIME_UNITS = ["s", "ms", "second", "seconds", "Seconds", "S", "msecond", "minute", "hour", "day", "millisecond", "mseconds"]
STRUCT_CODES = {"SIDECAR_KEY_MISSING", "HED_MISSING_REQUIRED_COLUMN", "HED_UNKNOWN_COLUMN", "SIDECAR_AND_OTHER_COLUMNS",
                "HED_BLANK_COLUMN", "SIDECAR_BRACES_INVALID", "ONSETS_UNORDERED", "INVALID_COLUMN_REF", "DUPLICATE_COLUMN_IN_LIST",
                "DUPLICATE_COLUMN_BETWEEN_SOURCES", "SELF_COLUMN_REF", "NESTED_COLUMN_REF", "MALFORMED_COLUMN_REF"}
TEMPORAL_CODES = {"TEMPORAL_TAG_ERROR"}


WARN_ONLY = ["red", "Item/Newthing", "blue", "Green/Greenish"]      # draw a warning, never an error


# seconds per unit for spellings string validation accepts (SI prefixes of the schema; written down, not asked of the library)
UNIT_FACTOR = {"s": 1.0, "ms": 1e-3, "second": 1.0, "seconds": 1.0, "millisecond": 1e-3, "milliseconds": 1e-3, "ks": 1e3,
               "kilosecond": 1e3, "kiloseconds": 1e3, "minute": 60.0, "minutes": 60.0, "hour": 3600.0, "cs": 1e-2,
               "centiseconds": 1e-2}


def _valid_cell(g):
    n = g.randint(1, 3)
    parts = []
    for _ in range(n):
        if g.chance(0.12):
            parts.append(g.pick(WARN_ONLY))
        elif g.chance(0.7):
            parts.append(g.pick(PLAIN))
        else:
            parts.append("(%s)" % ", ".join(g.sample(PLAIN, g.randint(1, 3))))
    return ", ".join(parts)


def _defect_cell(g):
    k = g.pick(["unknown", "paren", "empty", "repeat", "unknown", "paren", "empty", "repeat", "empty-groups"])
    if k == "empty-groups":
        return g.pick(["(), ()", "%s, (), ()" % g.pick(PLAIN), "((), ())", "()"]), k
    if k == "unknown":
        return "%s, Grren" % g.pick(PLAIN), k
    if k == "paren":
        return "(%s, %s" % (g.pick(PLAIN), g.pick(PLAIN)), k
    if k == "empty":
        return "%s,,%s" % (g.pick(PLAIN), g.pick(PLAIN)), k
    t = g.pick(PLAIN)
    return "%s, %s" % (t, t), k


def generate(run_index, seed, tier):
    g = Gen(seed)
    sc = {"kind": "tabular"}
    r8 = run_index % 8
    if r8 == 5:
        sc["kind"] = "spreadsheet"
    has_onset = sc["kind"] == "tabular" and g.chance(0.85)
    sc["ties"] = has_onset and r8 == 3
    cols = []
    if has_onset:
        cols.append("onset")
    use_hed = g.chance(0.8)
    use_cat = sc["kind"] == "tabular" and g.chance(0.6)
    use_val = sc["kind"] == "tabular" and g.chance(0.4)
    if not (use_hed or use_cat or use_val):
        use_hed = True
    body = (["HED"] if use_hed else []) + (["tt"] if use_cat else []) + (["val"] if use_val else [])
    if sc["kind"] == "spreadsheet":
        body = ["tags"] + (["more"] if g.chance(0.5) else [])
    cols += g.shuffled(body)
    if g.chance(0.3):
        cols.append("other")
    sidecar = {}
    if use_cat:
        sidecar["tt"] = {"HED": {"go": _valid_cell(g), "stop": _valid_cell(g)}}
        if g.chance(0.3):
            sidecar["tt"]["HED"]["bad"] = _defect_cell(g)[0]
        if g.chance(0.35):
            sidecar["tt"]["HED"]["defs"] = "(Definition/SCdef, (Blue))"     # the sidecar has a definition of its own
    if use_val:
        sidecar["val"] = {"HED": g.pick(["Label/#", "ID/#", "(Age/#, Face)"])}
    if use_cat and (use_val or use_hed) and g.chance(0.35):
        # a curly-brace reference: the referenced column is spliced into the categorical entry
        ref = g.pick((["val"] if use_val else []) + (["HED"] if use_hed else []))
        sidecar["tt"]["HED"]["go"] = sidecar["tt"]["HED"]["go"] + ", ({%s}, Star)" % ref
        sc["ref"] = ref
    n = g.randint(2, 7)
    rows = []
    t = 0.0
    a_open = False
    for i in range(n):
        t = round(t + g.pick([0.5, 1.0, 1.5, 2.0, 0.25]), 3)
        row = {}
        for c in cols:
            if c == "onset":
                row[c] = "%g" % t
            elif c in ("HED", "tags", "more"):
                x = g.random()
                if r8 == 6 and has_onset and c == "HED" and x < 0.75:
                    x = 0.99          # a sub-batch of files that are mostly Onset / (delayed) Offset markers
                if x < 0.42:
                    row[c] = _valid_cell(g)
                elif x < 0.45:
                    row[c] = g.pick([" ", "  ", " "])                 # a cell of blanks only
                elif x < 0.48 and has_onset:
                    # two Delay groups in one cell; the first holds a problem only the full-string pass finds
                    t1 = g.pick(PLAIN)
                    row[c] = "(Delay/1 s, (%s, %s)), (Delay/2 s, (%s))" % (t1, t1 if g.chance(0.6) else g.pick(PLAIN), g.pick(PLAIN))
                elif x < 0.6:
                    row[c] = "n/a"
                elif x < 0.75:
                    row[c] = _defect_cell(g)[0]
                elif x < 0.85 and has_onset:
                    unit = g.pick(TIME_UNITS)
                    val = g.pick(["2", "0.5", "1.25", "300", "2", "0.5", "abc", ""])
                    kind = g.pick(["Delay", "Duration", "Duration"])
                    row[c] = "(%s/%s %s, (%s))%s" % (kind, val, unit, g.pick(PLAIN), ", " + g.pick(PLAIN) if g.chance(0.5) else "")
                elif has_onset and c == "HED":
                    if a_open and g.chance(0.6):
                        row[c] = "(Def/A, Offset)"
                        if g.chance(0.7):
                            # the Offset takes effect later, the delay written in some accepted unit spelling
                            u = g.pick(sorted(UNIT_FACTOR) + ["milliseconds", "kiloseconds", "centiseconds", "ms"])
                            d = g.pick([0.125, 0.25, 0.5, 1.0, 3.0])
                            v = "%.12g" % (d / UNIT_FACTOR[u])
                            if float(v) * UNIT_FACTOR[u] == d:
                                row[c] = "(Def/A, Offset, Delay/%s %s)" % (v, u)
                        a_open = False
                    else:
                        row[c] = "(Def/A, Onset)" if g.chance(0.7) else "(Def/B/3, Onset)"
                        a_open = True
                else:
                    row[c] = _valid_cell(g)
            elif c == "tt":
                row[c] = g.pick(["go", "stop", "go", "n/a", "bad" if "bad" in sidecar["tt"]["HED"] else "go", "zzz"])
            elif c == "val":
                row[c] = g.pick(["abc", "17", "n/a", "x"])
            else:
                row[c] = g.pick(["foo", "n/a"])
        rows.append([row[c] for c in cols])
    if sc["ties"]:
        oi = cols.index("onset")
        j = g.randrange(1, n)
        rows[j][oi] = rows[j - 1][oi]
        if g.chance(0.5):
            k = g.randrange(n)
            rows[k][oi] = g.pick(["n/a", "abc"])
            if g.chance(0.5):
                for ci, c in enumerate(cols):
                    if c == "HED":
                        rows[k][ci] = "(Delay/2 s, (%s))" % g.pick(PLAIN)
    sc.update(columns=cols, rows=rows, sidecar=sidecar)
    if sc["kind"] == "spreadsheet":
        sc["header"] = g.chance(0.5)
        # an Excel workbook instead of a TSV file in half of the runs (needs a header row; empty cells are really empty)
        sc["xlsx"] = sc["header"] and g.chance(0.6)
        if sc["xlsx"] and len(rows) >= 2 and g.chance(0.4):
            k = g.randrange(0, len(rows) - 1)
            rows[k] = ["" for _ in rows[k]]          # an entirely empty worksheet row in the middle
    perms = []
    for _ in range(g.randint(1, 3)):
        how = g.pick(["swap", "rotate", "shuffle"])
        idx = list(range(n))
        if how == "swap" and n >= 2:
            j = g.randrange(n - 1)
            idx[j], idx[j + 1] = idx[j + 1], idx[j]
        elif how == "rotate":
            k = g.randrange(1, n)
            idx = idx[k:] + idx[:k]
        else:
            idx = g.shuffled(idx)
        perms.append(idx)
    sc["perms"] = perms
    sc["reuse"] = [g.chance(0.5) for _ in range(len(perms) + 1)]
    # one Sidecar object serves every file of the run (as one sidecar serves many recordings) or each gets its own
    sc["share_sidecar"] = g.chance(0.5)
    # row labels of the DataFrame handed in (a frame that was filtered / sorted before): issues name file rows regardless
    sc["index"] = g.pick(["default", "default", "default", "reversed", "offset", "gaps"])
    return sc


def shrink(sc):
    n = len(sc["rows"])
    for i in range(n):
        if n > 1:
            c = copy.deepcopy(sc)
            del c["rows"][i]
            c["perms"] = [[(j - 1 if j > i else j) for j in p if j != i] for p in c["perms"]]
            yield c
    for i in range(len(sc["perms"])):
        c = copy.deepcopy(sc)
        del c["perms"][i]
        del c["reuse"][i + 1]
        yield c
    for ci, col in enumerate(sc["columns"]):
        if col not in ("onset",) and len(sc["columns"]) > 1:
            c = copy.deepcopy(sc)
            del c["columns"][ci]
            for r in c["rows"]:
                del r[ci]
            c["sidecar"].pop(col, None)
            if any(x in c["columns"] for x in ("HED", "tt", "val", "tags", "more")):
                yield c
    for ri, r in enumerate(sc["rows"]):
        for ci, col in enumerate(sc["columns"]):
            if col in ("HED", "tags", "more") and r[ci] != "n/a":
                c = copy.deepcopy(sc)
                c["rows"][ri][ci] = "n/a"
                yield c
    if any(sc["reuse"]):
        c = copy.deepcopy(sc)
        c["reuse"] = [False] * len(c["reuse"])
        yield c


# ------------------------------------------------------------------------------------------- execution
def _key(i):
    return (i.get("code"), i.get("severity"), i.get("ec_row"), i.get("ec_column"))


def _build(W, sc, rows, sidecar=None):
    pd = W["pd"]
    if sc["kind"] == "spreadsheet" and sc.get("xlsx"):
        import openpyxl
        p = os.path.join(W["base"], "sheet.xlsx")
        wb = openpyxl.Workbook()
        ws = wb.active
        ws.append(list(sc["columns"]))
        for r in rows:
            ws.append([(None if c.strip() == "" else c) for c in r])
        wb.save(p)
        tagcols = [c for c in sc["columns"] if c in ("tags", "more")]
        return W["SpreadsheetInput"](p, tag_columns=tagcols, has_column_names=True, name="sheet")
    if sc["kind"] == "spreadsheet":
        p = os.path.join(W["base"], "sheet.tsv")
        with open(p, "w") as f:
            if sc["header"]:
                f.write("\t".join(sc["columns"]) + "\n")
            for r in rows:
                f.write("\t".join(r) + "\n")
        tagcols = [c for c in sc["columns"] if c in ("tags", "more")]
        if not sc["header"]:
            tagcols = [sc["columns"].index(c) for c in tagcols]
        return W["SpreadsheetInput"](p, tag_columns=tagcols, has_column_names=sc["header"], name="sheet")
    if sidecar is None:
        sidecar = W["Sidecar"](io.StringIO(json.dumps(sc["sidecar"]))) if sc["sidecar"] else None
    df = pd.DataFrame(rows, columns=sc["columns"], dtype=str)
    n = len(df)
    how = sc.get("index", "default")
    if how == "reversed":
        df.index = list(range(n - 1, -1, -1))
    elif how == "offset":
        df.index = list(range(10, 10 + n))
    elif how == "gaps":
        df.index = [3 * i + 1 for i in range(n)]
    return W["TabularInput"](df, sidecar=sidecar, name="events")


def _unit_accepted(W, cell):
    """Is this Delay/Duration cell accepted by string-level validation?  (memoised per text)"""
    if cell not in W["unit_ok"]:
        v = W["HedValidator"](W["schema"], def_dicts=W["dd"])
        iss = v.validate(W["HedString"](cell, W["schema"], W["dd"]), allow_placeholders=False)
        W["unit_ok"][cell] = not any(i.get("severity", 1) == 1 for i in iss)
    return W["unit_ok"][cell]


def execute(sc, script=None):
    W = _init()
    violations, probes, trace = [], {}, []

    def probe(k, n=1):
        probes[k] = probes.get(k, 0) + n

    def viol(clause, detail, sig):
        violations.append(Violation(clause, detail.replace(W["base"], "<scratch>"), sig).record(PROP))

    sc = copy.deepcopy(sc)
    if sc.get("xlsx"):
        # trailing rows whose cells are all empty do not exist in a saved workbook
        while sc["rows"] and all(c.strip() == "" for c in sc["rows"][-1]):
            sc["rows"].pop()
            sc["perms"] = []
        if not sc["rows"]:
            return _result(sc, [], {"worksheet_without_data_rows": 1}, [], False)
    cols = sc["columns"]
    # Delay/Duration spellings that string validation does not accept are replaced by plain tags (the property
    # quantifies over accepted spellings only)
    units_seen = set()
    for r in sc["rows"]:
        for ci, c in enumerate(cols):
            cell = r[ci]
            if c in ("HED", "tags", "more") and (cell.startswith("(Delay/") or cell.startswith("(Duration/")):
                if _unit_accepted(W, cell):
                    units_seen.add(cell.split()[1].rstrip(","))
                    probe("delay_group" if cell.startswith("(Delay") else "duration_group")
                else:
                    # a spelling string validation rejects: the cell simply carries an error (superset rule, never raises)
                    probe("rejected_unit_spelling_kept_as_defect")
            if "Def/" in cell:
                probe("temporal_marker")
            if cell == "n/a":
                probe("na_cells")
            if any(w in [x.strip(" ()") for x in cell.split(",")] for w in WARN_ONLY):
                probe("warning_only_cell")
    if len(units_seen) > 0:
        probe("unit_spelling_variety", len(units_seen))
    has_onset = "onset" in cols
    if not has_onset:
        probe("no_onset_column")
    if sc.get("ties"):
        probe("tied_or_nonnumeric_onsets")
    if sc["kind"] == "spreadsheet" and not sc.get("header"):
        probe("spreadsheet_input_no_header")
    if sc.get("xlsx"):
        probe("xlsx_input")
    if sc.get("ref"):
        probe("curly_brace_reference_in_sidecar")
    header_adj = 2 if (sc["kind"] == "tabular" or sc.get("header")) else 1
    handler = W["ErrorHandler"](check_for_warnings=True)

    shared = None
    if sc.get("share_sidecar") and sc["kind"] == "tabular" and sc["sidecar"]:
        shared = W["Sidecar"](io.StringIO(json.dumps(sc["sidecar"])))
        probe("sidecar_object_shared")
    if sc["kind"] == "tabular" and sc.get("index", "default") != "default":
        probe("dataframe_with_non_default_row_labels")

    def validate(rows, reuse, where):
        try:
            inp = _build(W, sc, rows, shared)
        except Exception as e:  # noqa
            viol("never-raises", "%s: constructing the input raised %s: %s" % (where, type(e).__name__, str(e)[:300]),
                 "construct-raises-%s" % type(e).__name__)
            return None, None
        eh = handler if reuse else W["ErrorHandler"](check_for_warnings=True)
        depth0 = len(eh.error_context)
        try:
            issues = inp.validate(W["schema"], extra_def_dicts=W["dd"], error_handler=eh)
        except Exception as e:  # noqa
            viol("never-raises", "%s: validate raised %s: %s\nfile columns %s rows %s" % (where, type(e).__name__, str(e)[:300], cols, rows),
                 "validate-raises-%s%s" % (type(e).__name__, _raise_shape(rows, cols)))
            return None, None
        if reuse:
            probe("handler_reused")
            if len(eh.error_context) != depth0:
                viol("handler-reuse", "%s: the caller's ErrorHandler has context depth %d after validate, %d before: %s"
                     % (where, len(eh.error_context), depth0, [c[0] for c in eh.error_context]), "context-stack-not-restored")
            try:
                fresh = _build(W, sc, rows).validate(W["schema"], extra_def_dicts=W["dd"], error_handler=W["ErrorHandler"](True))
                if sorted(map(str, map(_key, fresh))) != sorted(map(str, map(_key, issues))):
                    viol("handler-reuse", "%s: issues with a reused handler %s differ from those with a fresh handler %s"
                         % (where, sorted(map(_key, issues), key=str)[:8], sorted(map(_key, fresh), key=str)[:8]), "reused-handler-differs")
            except Exception:  # noqa
                pass
        return inp, issues

    inp, issues = validate(sc["rows"], sc["reuse"][0], "original order")
    if issues is None:
        return _result(sc, violations, probes, trace, False)
    trace.append(sorted(map(str, map(_key, issues))))
    nontrivial = False
    _check_rows(W, sc, inp, issues, header_adj, viol, probe)
    # ---- reordering fault
    distinct = has_onset and not sc.get("ties")
    if has_onset:
        oi = cols.index("onset")
    for pi, perm in enumerate(sc["perms"]):
        if violations:
            break
        prows = [sc["rows"][j] for j in perm]
        _, pissues = validate(prows, sc["reuse"][pi + 1], "permutation %s" % perm)
        if pissues is None:
            break
        trace.append(sorted(map(str, map(_key, pissues))))
        if not distinct:
            continue
        probe("permutation_checked")
        if perm != sorted(perm) and issues:
            nontrivial = True
        on = [float(r[oi]) for r in prows]
        unordered = any(a > b for a, b in zip(on, on[1:]))
        on0 = [float(r[oi]) for r in sc["rows"]]
        unordered0 = any(a > b for a, b in zip(on0, on0[1:]))
        if unordered:
            probe("onsets_unordered_warning_expected")
        back = {new + header_adj: old + header_adj for new, old in enumerate(perm)}
        a = sorted(str((i.get("code"), i.get("severity"), i.get("ec_row"), i.get("ec_column")))
                   for i in issues if i.get("code") != "ONSETS_UNORDERED")
        b = sorted(str((i.get("code"), i.get("severity"), back.get(i.get("ec_row"), i.get("ec_row")), i.get("ec_column")))
                   for i in pissues if i.get("code") != "ONSETS_UNORDERED")
        n_warn = sum(1 for i in pissues if i.get("code") == "ONSETS_UNORDERED")
        if a != b:
            only_a = [x for x in a if x not in b]
            only_b = [x for x in b if x not in a]
            viol("permutation", "rows in order %s: issues (rows mapped back) differ from the original file.\nonly original: %s\n"
                 "only permuted: %s\ncolumns %s\nrows %s" % (perm, only_a[:6], only_b[:6], cols, sc["rows"]),
                 "shuffled-file-differs%s" % _perm_shape(only_a, only_b))
        elif n_warn != (1 if unordered else 0):
            viol("permutation", "rows in order %s (onsets %s): %d ONSETS_UNORDERED warnings, expected %d"
                 % (perm, on, n_warn, 1 if unordered else 0), "unordered-warning-count")
        del unordered0
    # ---- unit spelling: the same file with every delayed marker's delay rewritten in seconds gives the same issues
    import re as _re
    pat = _re.compile(r"(Offset, Delay/)([0-9.eE+-]+) (\w+)\)")
    if not violations and any(pat.search(c) and pat.search(c).group(3) != "s" for r in sc["rows"] for c in r):
        def _canon(m):
            return "%s%.12g s)" % (m.group(1), float(m.group(2)) * UNIT_FACTOR[m.group(3)])
        twin = [[pat.sub(_canon, c) for c in r] for r in sc["rows"]]
        _, tissues = validate(twin, False, "delays rewritten in seconds")
        if tissues is not None:
            probe("delayed_marker_unit_twin_checked")
            ka, kb = sorted(map(str, map(_key, issues))), sorted(map(str, map(_key, tissues)))
            if ka != kb:
                viol("permutation", "the file with its marker delays written in seconds gives other issues: only as written %s, "
                     "only in seconds %s\nrows %s" % ([x for x in ka if x not in kb][:6], [x for x in kb if x not in ka][:6], sc["rows"]),
                     "unit-spelling-changes-issues")
    if shared is not None and not violations:
        # history independence of the shared Sidecar: after the calls above (which passed extra definitions) the same
        # object is used without them; the answer must be the one a fresh Sidecar gives
        try:
            a = _build(W, sc, sc["rows"], shared).validate(W["schema"], error_handler=W["ErrorHandler"](True))
            b = _build(W, sc, sc["rows"], None).validate(W["schema"], error_handler=W["ErrorHandler"](True))
            probe("shared_sidecar_then_without_extra_definitions")
            ka, kb = sorted(map(str, map(_key, a))), sorted(map(str, map(_key, b)))
            if ka != kb:
                viol("handler-reuse", "a Sidecar object used before with extra definitions, now without: issues %s; a fresh "
                     "Sidecar gives %s" % ([x for x in ka if x not in kb][:6], [x for x in kb if x not in ka][:6]),
                     "shared-sidecar-differs")
        except Exception as e:  # noqa
            viol("never-raises", "validate without extra definitions raised %s: %s" % (type(e).__name__, str(e)[:300]),
                 "validate-raises-%s" % type(e).__name__)
    return _result(sc, violations, probes, trace, nontrivial)


def _raise_shape(rows, cols):
    txt = " ".join(c for r in rows for c in r)
    if "Delay/" in txt:
        return "-with-Delay"
    if "Duration/" in txt:
        return "-with-Duration"
    return ""


def _perm_shape(only_a, only_b):
    codes = sorted({x.split("'")[1] for x in only_a + only_b if "'" in x})
    return "-" + "+".join(codes[:3]) if codes else ""


def _check_rows(W, sc, inp, issues, header_adj, viol, probe):
    cols = sc["columns"]
    v = W["HedValidator"](W["schema"], def_dicts=inp.get_def_dict(W["schema"], extra_def_dicts=W["dd"]))
    try:
        texts = [str(x) for x in inp.series_a]
        df_a = inp.dataframe_a
    except Exception as e:  # noqa
        viol("never-raises", "series_a raised %s: %s" % (type(e).__name__, str(e)[:200]), "series_a-raises")
        return
    if len(texts) != len(sc["rows"]):
        if sc.get("xlsx"):
            # a worksheet row is a row: if the reader drops one, every label below it is off
            viol("row-labels", "the worksheet has %d data rows but the input object holds %d: rows were dropped, labels below them "
                 "no longer name the file row" % (len(sc["rows"]), len(texts)), "worksheet-rows-dropped")
            return
        probe("reader_skipped_blank_lines")       # pandas drops lines made of blanks only: row bookkeeping not judged
        return
    # rows on the time line are judged one by one when no two of them share a time; rows without a numeric onset are not on
    # the time line at all (they are judged on their own further down)
    distinct = "onset" in cols
    if distinct:
        oi_ = cols.index("onset")
        nums = []
        for r in sc["rows"]:
            try:
                nums.append(float(r[oi_]))
            except ValueError:
                pass
        distinct = len(set(nums)) == len(nums)
    if distinct and _delay_collision(W, sc, texts):
        # a Delay-shifted group lands on another row's (effective) time: the validator merges them before the
        # full-string checks (the statement's "temporal issues"), so only the superset rule applies to this file
        distinct = False
        probe("delay_lands_on_another_timepoint")
    by_row = {}
    n_rows = len(sc["rows"])
    for i in issues:
        r = i.get("ec_row")
        if r is not None and not (header_adj <= r < n_rows + header_adj):
            viol("row-labels", "issue %s is labelled row %r but the file has rows %d..%d (header counted)"
                 % (i.get("code"), r, header_adj, n_rows + header_adj - 1), "row-label-out-of-range")
            return
        by_row.setdefault(r, []).append(i)
    a_cols = [str(c) for c in df_a.columns]
    for ri in range(n_rows):
        label = ri + header_adj
        file_errs = [i for i in by_row.get(label, []) if i.get("severity", 1) == 1
                     and i.get("code") not in STRUCT_CODES and i.get("code") not in TEMPORAL_CODES]
        # per-cell errors (assembled cells: what the validator sees per column)
        cell_errs = {}
        for c in a_cols:
            cell = str(df_a.iloc[ri][df_a.columns[a_cols.index(c)]])
            if not cell or cell == "n/a":
                continue
            errs = [x for x in v.run_basic_checks(W["HedString"](cell, W["schema"]), allow_placeholders=False)
                    if x.get("severity", 1) == 1]
            if errs:
                cell_errs[c] = sorted(x["code"] for x in errs)
        if cell_errs:
            probe("cell_with_defect")
            probe("row_superset_checked")
            for c, codes in cell_errs.items():
                have = sorted(i.get("code") for i in file_errs if str(i.get("ec_column")) == str(c))
                for code in set(codes):
                    if have.count(code) < codes.count(code):
                        viol("row-errors", "row %d column %s cell error %s (cell validated alone gives %s) is not reported for that row and "
                             "column; the file reports %s for the row\nrow %s" % (label, c, code, codes,
                             [(i.get("code"), i.get("ec_column")) for i in by_row.get(label, [])], sc["rows"][ri]),
                             "cell-error-missing-or-mislabelled-%s" % code)
                        return
            continue
        own_numeric = True
        if "onset" in cols:
            try:
                float(sc["rows"][ri][cols.index("onset")])
            except ValueError:
                own_numeric = False
        if "onset" in cols and (not distinct or not own_numeric):
            # the file has tied onsets, or this row has no numeric onset: rows on the time line may be merged with others, but a row WITHOUT a
            # numeric onset is not on the time line - it is judged on its own like any other row
            own = sc["rows"][ri][cols.index("onset")]
            try:
                float(own)
                continue
            except ValueError:
                if "delay/" in texts[ri].lower() or sc.get("ref"):
                    continue
                probe("row_without_numeric_onset_judged")
        txt = texts[ri]
        if not txt:
            want = []
        else:
            want = sorted(x["code"] for x in v.validate(W["HedString"](txt, W["schema"], W["dd"]), allow_placeholders=False)
                          if x.get("severity", 1) == 1 and x.get("code") not in TEMPORAL_CODES)
        got = sorted(i.get("code") for i in file_errs)
        probe("row_equality_checked")
        if len(want) != len(set(want)) or "TAG_EXPRESSION_REPEATED" in want:
            probe("cross_column_repeat")
        if got != want:
            viol("row-errors", "row %d (%r): file validation reports error codes %s, string validation of the assembled row reports %s\n"
                 "row cells %s" % (label, txt, got, want, dict(zip(cols, sc["rows"][ri]))),
                 "row-codes-differ-file-%s-string-%s" % ("+".join(sorted(set(got))) or "none", "+".join(sorted(set(want))) or "none"))
            return


def _delay_collision(W, sc, texts):
    oi = sc["columns"].index("onset")
    times = []
    for r, txt in zip(sc["rows"], texts):
        try:
            t0 = float(r[oi])
        except ValueError:
            continue          # a row without a time cannot collide with anything
        times.append(t0)
        if "delay/" in txt.lower():
            try:
                hs = W["HedString"](txt, W["schema"])
                for tag in hs.get_all_tags():
                    if tag.short_base_tag == "Delay":
                        v = tag.value_as_default_unit()
                        if v is None:
                            return True
                        times.append(t0 + v)
            except Exception:  # noqa - unparsable cell: the superset rule applies anyway
                return True
    times.sort()
    return any(abs(a - b) < 1e-6 for a, b in zip(times, times[1:]))


def _result(sc, violations, probes, trace, nontrivial):
    seen, uniq = set(), []
    for v in violations:
        if v["signature"] not in seen:
            seen.add(v["signature"])
            uniq.append(v)
    return {"violations": uniq, "digest": core.digest([sc, trace]), "hdigest": core.digest(sc), "rdigest": core.digest(trace),
            "decisions": [], "nontrivial": nontrivial, "probes": probes, "faults": {"row_permutation": len(trace) - 1} if len(trace) > 1 else {},
            "steps": len(trace), "sim_s": 0.0, "states": [core.digest(t) for t in trace[-2:]], "sched": core.digest(sc["perms"]),
            "summary": {"kind": sc["kind"], "rows": len(sc["rows"]), "perms": sc["perms"]}}
