"""C06 - Event-file rows assemble into exactly the annotation the sidecar prescribes.

History machine on ONE long-lived TabularInput / Sidecar pair (optionally a second TabularInput
sharing the Sidecar): a seeded sequence of series_a / dataframe_a / assemble(skip_curly_braces) /
series_filtered / validate / get_def_dict / get_column_refs / to_csv / sidecar accessors; after every
call the table and the sidecar are compared with their snapshots (values AND dtypes), assembly
answers with the first answer of the same kind and with a fresh object, and each assembled row with an
independent reference assembly (delimiter-well-formed, unordered top-level multiset).  Every run is
repeated under a second PYTHONHASHSEED (Sidecar.get_column_refs is list(set)).  Input arrives as a
DataFrame or as a TSV file in scratch read by the real pandas path.  See DESIGN.md 4/C06.
"""
import copy
import io
import json
import os
import shutil
import tempfile

from sim import core
from sim.core import Gen, Violation
from gen import vocab

PROP = "C06"
LEVEL = "exploration"
HASH_VARIANTS = 2
RUNS = {"quick": 3000, "thorough": 150000}
WALL_LIMIT = {"quick": 1200, "thorough": 5 * 3600}
PROBES = ["na_in_braces_categorical", "na_in_braces_value", "na_in_braces_hed_column", "ref_inside_parentheses", "ref_first",
          "ref_middle", "ref_last", "unknown_key", "empty_cell", "file_input", "dataframe_input", "columns_shuffled",
          "second_call_same_kind", "shared_sidecar_second_table", "validate_between_assemblies", "two_refs_one_template",
          "dataframe_with_non_default_row_labels"]
RULE = ("Each run generates a sidecar of 2-5 columns drawn from {categorical, value, ignored, HED column} with 0-2 curly-brace "
        "references per template ({HED}, categorical and value columns; inside parentheses; first / middle / last position), a "
        "table of 1-6 rows over the category keys plus n/a, empty and unknown keys (as DataFrame - with default, reversed, offset or gapped row labels - or TSV file, column order "
        "shuffled), and a history of 3-12 calls on the same objects.  Non-trivial: the history repeats an assembly call after "
        "another call and some reference meets an n/a / empty cell.  Distinct = distinct sha-256 of (scenario, results).")
COMPONENTS = {"real": ["TabularInput / BaseInput.assemble/_handle_transforms/combine_dataframe/series_a/series_filtered",
                       "ColumnMapper", "ColumnMetadata", "Sidecar", "df_util._handle_curly_braces_refs/replace_ref",
                       "pandas read_csv path for file input", "SpreadsheetValidator (validate calls in the history)"],
              "stub": []}
ASSUMPTIONS = ["top-level order of the assembled annotation is not compared (the statement says 'union')",
               "an unknown category key selects nothing (validation reports it separately)",
               "cells are compared as text"]

_W = {}


def _init():
    if _W:
        return _W
    import warnings
    warnings.simplefilter("ignore")
    import pandas as pd
    from hed import TabularInput, Sidecar
    from hed.schema import load_schema
    repo = os.environ.get("VERIF_REPO", "/repo")
    schema = load_schema(os.path.join(repo, "hed/schema/schema_data/HED8.3.0.xml"))
    base = tempfile.mkdtemp(prefix="verif-c06-%d-" % os.getpid(), dir="/dev/shm" if os.path.isdir("/dev/shm") else None)
    import atexit
    atexit.register(shutil.rmtree, base, True)
    _W.update(pd=pd, TabularInput=TabularInput, Sidecar=Sidecar, schema=schema, base=base)
    return _W


PLAIN = ["Red", "Blue", "Green", "Square", "Circle", "Triangle", "Cross", "Face", "Yellow", "Black", "White", "Star"]
COLNAMES = ["trial_type", "response", "stim", "level", "side", "resp-type", "block2", "Stim-2_b", "duration"]   # [a-z_\-0-9]+, any case
VALUE_TAGS = ["Label/#", "Age/#", "ID/#"]


# ------------------------------------------------------------------------------------------- generation
def _tpl(g, refs):
    """A template: list of top-level elements; element = str | list (group).  refs are spliced at seeded positions."""
    def group(depth):
        kids = [g.pick(PLAIN) for _ in range(g.randint(1, 2))]
        if depth < 2 and g.chance(0.3):
            kids.append(group(depth + 1))
        return kids
    top = []
    for _ in range(g.randint(1, 3)):
        top.append(g.pick(PLAIN) if g.chance(0.6) else group(1))
    pos = []
    for r in refs:
        tok = "{%s}" % r
        where = g.pick(["first", "middle", "last", "ingroup", "ingroup"])
        if where == "ingroup":
            grp = [x for x in top if isinstance(x, list)]
            if not grp:
                top.append([g.pick(PLAIN)])
                grp = [top[-1]]
            tgt = g.pick(grp)
            r2 = g.random()
            if r2 < 0.3:
                # the reference alone in its own parentheses inside an enclosing group (first / any position)
                tgt.insert(0 if g.chance(0.6) else g.randrange(len(tgt) + 1), [tok] if g.chance(0.7) else [[tok]])
                pos.append(where)
                continue
            tgt.insert(g.randrange(len(tgt) + 1), tok)
            if g.chance(0.15) and len(tgt) > 1:
                # a group that contains only the reference
                top.append([tok])
                tgt.remove(tok)
        elif where == "first":
            top.insert(0, tok)
        elif where == "last":
            top.append(tok)
        else:
            top.insert(len(top) // 2 if len(top) > 1 else 0, tok)
        pos.append(where)
    return top, pos


def _render(el):
    if isinstance(el, list):
        return "(" + ", ".join(_render(x) for x in el) + ")"
    return el


def _render_top(top):
    return ", ".join(_render(x) for x in top)


def generate(run_index, seed, tier):
    g = Gen(seed)
    n_cols = g.randint(2, 5)
    names = g.sample(COLNAMES, n_cols)
    cols = {}
    kinds = {}
    for nm in names:
        kinds[nm] = g.pick(["categorical", "categorical", "value", "ignored"])
    has_hed_col = g.chance(0.6)
    # referenced columns hold no references themselves
    referable = [nm for nm in names if kinds[nm] in ("categorical", "value")] + (["HED"] if has_hed_col else [])
    referenced = set(g.subset(referable, 0, 2))
    ref_pos = []
    for nm in names:
        k = kinds[nm]
        can_ref = nm not in referenced
        refs = g.subset(sorted(referenced), 0, 2) if can_ref and k != "ignored" and g.chance(0.6) else []
        if refs and g.chance(0.4):
            refs = [refs[0], refs[0]]          # the same reference twice in one template
        if k == "categorical":
            keys = g.sample(g.pick([["go", "stop", "left", "right", "hi", "lo"], ["go", "stop", "left", "right", "hi", "lo"],
                                    ["1", "2", "10", "go"]]), g.randint(1, 3))
            ent = {}
            for key in keys:
                top, pos = _tpl(g, refs if g.chance(0.8) else [])
                ref_pos += pos
                ent[key] = top
            cols[nm] = {"kind": k, "entries": ent}
        elif k == "value":
            top, pos = _tpl(g, refs)
            ref_pos += pos
            top.insert(g.randrange(len(top) + 1), g.pick(VALUE_TAGS))
            cols[nm] = {"kind": k, "template": top}
        else:
            cols[nm] = {"kind": k}
    # a referenced column must be used by at least one template, else drop it from the referenced set (it is then plain)
    used = set()
    for c in cols.values():
        for top in (list(c.get("entries", {}).values()) + ([c["template"]] if "template" in c else [])):
            used |= _refs_in(top)
    # a column the sidecar does not mention; "hed" / "Hed" are ordinary names (only "HED" is the HED column)
    extra_name = g.pick(["extra", "extra", "hed", "Hed"])
    table_cols = list(names) + (["HED"] if has_hed_col else []) + ([extra_name] if g.chance(0.35) else [])
    order = g.shuffled(table_cols)
    if g.chance(0.5):
        order = ["onset"] + order
    rows = []
    t = 0.0
    for _ in range(g.randint(1, 6)):
        t += g.pick([0.5, 1.0, 1.0, 0.0])
        row = {}
        for c in order:
            if c == "onset":
                row[c] = "%g" % t
            elif c == "HED":
                row[c] = g.pick(["Hand", "(Foot, Black)", "n/a", "n/a", "", " Hand", "Hand ", " (Foot, Black) ", " ", "  "])
            elif c == extra_name:
                row[c] = g.pick(["x", "y", "n/a", "Purple", "(Orange, Pink)"])
            elif kinds[c] == "categorical":
                near = ["1.0", "02", "1e1", " go", "GO"] if any(k in cols[c]["entries"] for k in ("1", "2", "10")) else [" go", "GO"]
                row[c] = g.pick(sorted(cols[c]["entries"]) * 2 + ["n/a", "n/a", "", "unknownkey", g.pick(near)])
            elif kinds[c] == "value":
                row[c] = g.pick(["5", "abc", "17", "n/a", "n/a", "", "faces\\new01.png", "stim\\dog.png"])   # text is text
            else:
                row[c] = g.pick(["foo", "n/a"])
        rows.append([row[c] for c in order])
    calls = []
    CALLS = ["series_a", "series_a", "dataframe_a", "assemble_skip", "assemble", "series_filtered", "validate", "get_def_dict",
             "get_column_refs", "columns", "to_csv", "sidecar_column_data", "sidecar_json", "second_table_series_a",
             "assemble_other_mapper"]
    for _ in range(g.randint(3, 12)):
        calls.append(g.pick(CALLS))
    if has_hed_col and g.chance(0.15):
        # a sidecar entry that is itself called HED (with category keys no cell uses): the HED column cell is still
        # part of the row's annotation, verbatim
        cols["HED"] = {"kind": "categorical", "entries": {"zz": ["Black"], "yy": ["White", ["Star"]]}, "shadow": True}
    sc = {"columns": cols, "order": order, "rows": rows, "calls": calls, "input": g.pick(["df", "df", "file"]),
          "used_refs": sorted(used), "ref_pos": ref_pos}
    # row labels of a DataFrame handed in by the caller (a table that was filtered, sorted or concatenated before)
    sc["index"] = g.pick(["default", "default", "default", "reversed", "offset", "gaps"])
    return sc


def _refs_in(top):
    out = set()
    for x in top:
        if isinstance(x, list):
            out |= _refs_in(x)
        elif x.startswith("{") and x.endswith("}"):
            out.add(x[1:-1])
    return out


def shrink(sc):
    for i in range(len(sc["calls"])):
        if len(sc["calls"]) > 1:
            c = copy.deepcopy(sc)
            del c["calls"][i]
            yield c
    for i in range(len(sc["rows"])):
        if len(sc["rows"]) > 1:
            c = copy.deepcopy(sc)
            del c["rows"][i]
            yield c
    # drop a column that nobody references
    for nm in list(sc["columns"]):
        refd = set()
        for other, col in sc["columns"].items():
            if other == nm:
                continue
            for top in (list(col.get("entries", {}).values()) + ([col["template"]] if "template" in col else [])):
                refd |= _refs_in(top)
        if nm not in refd and len(sc["columns"]) > 1:
            c = copy.deepcopy(sc)
            del c["columns"][nm]
            j = c["order"].index(nm)
            del c["order"][j]
            for r in c["rows"]:
                del r[j]
            yield c
    if sc.get("index", "default") != "default":
        c = copy.deepcopy(sc)
        c["index"] = "default"
        yield c
    if sc["input"] == "file":
        c = copy.deepcopy(sc)
        c["input"] = "df"
        yield c
    # simplify templates: drop one top-level element
    for nm, col in sc["columns"].items():
        tops = []
        if "template" in col:
            tops.append(("template", None))
        for k in col.get("entries", {}):
            tops.append(("entries", k))
        for which, key in tops:
            top = col["template"] if which == "template" else col["entries"][key]
            for j in range(len(top)):
                if len(top) > 1 and not (which == "template" and isinstance(top[j], str) and "#" in top[j]):
                    c = copy.deepcopy(sc)
                    t2 = c["columns"][nm]["template"] if which == "template" else c["columns"][nm]["entries"][key]
                    del t2[j]
                    yield c


# ------------------------------------------------------------------------------------------- reference assembly
def _sidecar_json(sc):
    d = {}
    for nm, col in sc["columns"].items():
        if col["kind"] == "categorical":
            d[nm] = {"Description": "generated", "HED": {k: _render_top(v) for k, v in col["entries"].items()}}
        elif col["kind"] == "value":
            d[nm] = {"Description": "generated", "HED": _render_top(col["template"])}
        else:
            d[nm] = {"Description": "no HED here", "Levels": {"foo": "a level"}}
    return d


def _col_text_tree(sc, nm, cell):
    """Own (un-spliced) annotation tree of a column for one cell, or None when the cell contributes nothing."""
    if nm == "HED":
        if cell.strip() in ("n/a", ""):
            return None
        return vocab.parse(cell)
    col = sc["columns"][nm]
    if col["kind"] == "categorical":
        top = col["entries"].get(cell)
        return copy.deepcopy(top) if top is not None else None
    if col["kind"] == "value":
        if cell in ("n/a", ""):
            return None
        return _subst(col["template"], cell)
    return None


def _subst(top, value):
    out = []
    for x in top:
        if isinstance(x, list):
            out.append(_subst(x, value))
        else:
            out.append(x.replace("#", value))
    return out


def _splice(top, lookup):
    """Replace {ref} leaves by the referenced column's elements (in place of the reference) or remove them; groups that
    become empty disappear."""
    out = []
    for x in top:
        if isinstance(x, list):
            inner = _splice(x, lookup)
            if inner:
                out.append(inner)
        elif x.startswith("{") and x.endswith("}"):
            rep = lookup(x[1:-1])
            if rep:
                out.extend(copy.deepcopy(rep))
        else:
            out.append(x)
    return out


def reference_rows(sc, file_input):
    order = sc["order"]
    assembled_cols = [c for c in order if c == "HED" or (c in sc["columns"] and sc["columns"][c]["kind"] != "ignored")]
    all_refs = set()
    for col in sc["columns"].values():
        for top in (list(col.get("entries", {}).values()) + ([col["template"]] if "template" in col else [])):
            all_refs |= _refs_in(top)
    referenced = {r for r in all_refs if r in assembled_cols}
    out = []
    for row in sc["rows"]:
        cells = dict(zip(order, row))
        if file_input:
            cells = {k: ("n/a" if v == "" else v) for k, v in cells.items()}

        def lookup(ref):
            if ref not in assembled_cols:
                return None
            return _col_text_tree(sc, ref, cells[ref])
        elements = []
        for c in assembled_cols:
            if c in referenced:
                continue
            tree = _col_text_tree(sc, c, cells[c])
            if tree is None:
                continue
            elements.extend(_splice(tree, lookup))
        out.append(vocab.canon(elements))
    return out


# ------------------------------------------------------------------------------------------- execution
def _snapshot(df):
    return ([str(c) for c in df.columns], [str(t) for t in df.dtypes], [str(i) for i in df.index],
            [[str(v) for v in rec] for rec in df.itertuples(index=False, name=None)])


def _make(W, sc, sidecar=None):
    pd = W["pd"]
    if sidecar is None:
        sidecar = W["Sidecar"](io.StringIO(json.dumps(_sidecar_json(sc))), name="generated")
    if sc["input"] == "file":
        p = os.path.join(W["base"], "events.tsv")
        with open(p, "w") as f:
            f.write("\t".join(sc["order"]) + "\n")
            for r in sc["rows"]:
                f.write("\t".join(r) + "\n")
        tab = W["TabularInput"](p, sidecar=sidecar, name="events")
    else:
        df = pd.DataFrame(sc["rows"], columns=sc["order"], dtype=str)
        n = len(df)
        how = sc.get("index", "default")
        if how == "reversed":
            df.index = list(range(n - 1, -1, -1))
        elif how == "offset":
            df.index = list(range(10, 10 + n))
        elif how == "gaps":
            df.index = [3 * i + 1 for i in range(n)]
        tab = W["TabularInput"](df, sidecar=sidecar, name="events")
    return tab, sidecar


def execute(sc, script=None):
    W = _init()
    violations, probes, trace = [], {}, []

    def probe(k, n=1):
        probes[k] = probes.get(k, 0) + n

    def viol(clause, detail, sig):
        violations.append(Violation(clause, detail.replace(W["base"], "<scratch>"), sig).record(PROP))

    file_input = sc["input"] == "file"
    probe("file_input" if file_input else "dataframe_input")
    if not file_input and sc.get("index", "default") != "default":
        probe("dataframe_with_non_default_row_labels")
    if sc["order"] != sorted(sc["order"]):
        probe("columns_shuffled")
    for pos in sc.get("ref_pos", []):
        probe({"first": "ref_first", "middle": "ref_middle", "last": "ref_last", "ingroup": "ref_inside_parentheses"}[pos])
    if len(sc.get("ref_pos", [])) >= 2:
        probe("two_refs_one_template")
    na_hit = False
    for row in sc["rows"]:
        cells = dict(zip(sc["order"], row))
        for r in sc["used_refs"]:
            if r in cells and cells[r] in ("n/a", ""):
                na_hit = True
                if r == "HED":
                    probe("na_in_braces_hed_column")
                elif sc["columns"][r]["kind"] == "categorical":
                    probe("na_in_braces_categorical")
                else:
                    probe("na_in_braces_value")
            if r in cells and r in sc["columns"] and sc["columns"][r]["kind"] == "categorical" \
                    and cells[r] not in sc["columns"][r]["entries"] and cells[r] not in ("n/a", ""):
                na_hit = True
        if any(c == "unknownkey" for c in row):
            probe("unknown_key")
        if any(c == "" for c in row):
            probe("empty_cell")
    try:
        tab, sidecar = _make(W, sc)
    except Exception as e:  # noqa
        viol("no-exception", "constructing TabularInput raised %s: %s" % (type(e).__name__, str(e)[:300]), "construct-%s" % type(e).__name__)
        return _result(sc, violations, probes, trace, False)
    snap_df = _snapshot(tab.dataframe)
    snap_sc = copy.deepcopy(sidecar.loaded_dict)
    want = reference_rows(sc, file_input)
    first_answer = {}
    second = None
    nontrivial = False
    n_assembly = 0

    def check_series(series, kind, where, want=want):
        vals = [str(v) for v in series]
        if len(vals) != len(sc["rows"]):
            viol("one-row-per-row", "%s returned %d annotations for %d rows" % (where, len(vals), len(sc["rows"])), "row-count-%s" % kind)
            return None
        for i, txt in enumerate(vals):
            ok, why = vocab.wellformed(txt)
            if not ok:
                viol("delimiter-well-formed", "%s row %d (cells %s) assembles to %r: %s\nsidecar %s"
                     % (where, i, dict(zip(sc["order"], sc["rows"][i])), txt, why, json.dumps(_sidecar_json(sc))[:600]),
                     "malformed-%s" % _why_sig(sc, i))
                return vals
            got = vocab.canon(vocab.parse(txt)) if txt.strip() else ()
            if got != want[i]:
                viol("prescribed-content", "%s row %d (cells %s) assembles to %r but the sidecar prescribes %s\nsidecar %s"
                     % (where, i, dict(zip(sc["order"], sc["rows"][i])), txt, core.canon(want[i]), json.dumps(_sidecar_json(sc))[:600]),
                     "content-differs-%s" % _why_sig(sc, i))
                return vals
        return vals

    for ci, call in enumerate(sc["calls"]):
        if violations:
            break
        res = None
        try:
            if call == "series_a":
                res = check_series(tab.series_a, "series_a", "call %d series_a" % ci)
            elif call == "dataframe_a":
                df = tab.dataframe_a
                res = check_series(tab.combine_dataframe(df), "dataframe_a", "call %d dataframe_a" % ci)
            elif call == "assemble":
                res = check_series(tab.combine_dataframe(tab.assemble(skip_curly_braces=False)), "assemble", "call %d assemble" % ci)
            elif call == "assemble_skip":
                df = tab.assemble(skip_curly_braces=True)
                res = [[str(v) for v in rec] for rec in df.itertuples(index=False, name=None)]
            elif call == "series_filtered":
                r = tab.series_filtered
                res = [str(v) for v in r] if hasattr(r, "__iter__") and not isinstance(r, str) else str(r)
            elif call == "validate":
                tab.validate(W["schema"])
                res = "validated"
            elif call == "get_def_dict":
                tab.get_def_dict(W["schema"])
                res = "defs"
            elif call == "get_column_refs":
                res = sorted(tab.get_column_refs())
            elif call == "columns":
                res = list(tab.columns)
            elif call == "to_csv":
                res = tab.to_csv()
            elif call == "sidecar_column_data":
                res = sorted(sidecar.column_data)
            elif call == "sidecar_json":
                res = json.loads(sidecar.get_as_json_string())
            elif call == "assemble_other_mapper":
                # the documented escape hatch assemble(mapper=...): a mapper built from the same sidecar minus one column
                # that neither holds nor is the target of a reference; the result follows THAT mapper
                drop = [nm for nm, col in sorted(sc["columns"].items()) if col["kind"] != "ignored" and nm not in sc["used_refs"]
                        and not any(_refs_in(t) for t in (list(col.get("entries", {}).values())
                                                          + ([col["template"]] if "template" in col else [])))]
                if drop:
                    probe("assemble_with_another_mapper")
                    sc2 = copy.deepcopy(sc)
                    sc2["columns"][drop[0]] = {"kind": "ignored"}
                    from hed.models.column_mapper import ColumnMapper
                    other = ColumnMapper(sidecar=W["Sidecar"](io.StringIO(json.dumps(_sidecar_json(sc2))), name="other"),
                                         optional_tag_columns=["HED"], warn_on_missing_column=True)
                    other.set_column_map(list(tab.columns))
                    check_series(tab.combine_dataframe(tab.assemble(mapper=other)), "assemble_other_mapper",
                                 "call %d assemble(mapper=other)" % ci, want=reference_rows(sc2, file_input))
                res = None
            elif call == "second_table_series_a":
                probe("shared_sidecar_second_table")
                if second is None:
                    second, _ = _make(W, sc, sidecar=sidecar)
                res = check_series(second.series_a, "series_a", "call %d second table series_a" % ci)
        except Exception as e:  # noqa
            viol("no-exception", "call %d (%s) raised %s: %s" % (ci, call, type(e).__name__, str(e)[:300]), "%s-raises-%s" % (call, type(e).__name__))
            break
        trace.append([call, res])
        key = "series" if call in ("series_a", "dataframe_a", "assemble", "second_table_series_a") else call
        if call in ("series_a", "dataframe_a", "assemble", "assemble_skip", "series_filtered", "second_table_series_a"):
            n_assembly += 1
            if n_assembly > 1:
                probe("second_call_same_kind")
                nontrivial = nontrivial or na_hit
            if ci > 0 and sc["calls"][ci - 1] == "validate":
                probe("validate_between_assemblies")
        if key in first_answer:
            if res is not None and first_answer[key] != res:
                viol("same-answer", "call %d (%s) answers %r, the first call of that kind answered %r" % (ci, call, str(res)[:300],
                     str(first_answer[key])[:300]), "answer-changes-%s" % call)
        elif res is not None:
            first_answer[key] = res
        # (1) no mutation
        now = _snapshot(tab.dataframe)
        if now != snap_df:
            what = "dtypes %s -> %s" % (snap_df[1], now[1]) if now[1] != snap_df[1] else "values/columns"
            viol("no-mutation", "after call %d (%s) TabularInput.dataframe changed: %s" % (ci, call, what),
                 "table-%s-after-%s" % ("dtype-changes" if now[1] != snap_df[1] else "values-change", call))
        if sidecar.loaded_dict != snap_sc:
            viol("no-mutation", "after call %d (%s) Sidecar.loaded_dict changed" % (ci, call), "sidecar-changes-after-%s" % call)
    if not violations and "series" in first_answer:
        # same answer as a freshly constructed object
        fresh, _ = _make(W, sc)
        fr = [str(v) for v in fresh.series_a]
        if fr != first_answer["series"]:
            viol("same-answer", "a fresh TabularInput assembles %r, the used one %r" % (fr, first_answer["series"]), "fresh-differs")
    return _result(sc, violations, probes, trace, nontrivial)


def _why_sig(sc, i):
    cells = dict(zip(sc["order"], sc["rows"][i]))
    for r in sc["used_refs"]:
        if r in cells:
            kind = "hedcol" if r == "HED" else sc["columns"][r]["kind"]
            if cells[r] == "n/a":
                return "%s-na-in-braces" % kind
            if cells[r] == "":
                return "%s-empty-in-braces" % kind
            if kind == "categorical" and cells[r] not in sc["columns"][r]["entries"]:
                return "categorical-unknown-key-in-braces"
    if any(v == "" for v in cells.values()):
        return "empty-cell"
    return "plain"


def _ws_free(obj):
    """Results compared ACROSS interpreters (hash-order independence) ignore insignificant white space."""
    if isinstance(obj, str):
        return "".join(obj.split())
    if isinstance(obj, (list, tuple)):
        return [_ws_free(x) for x in obj]
    if isinstance(obj, dict):
        return {k: _ws_free(v) for k, v in obj.items()}
    return obj


def _result(sc, violations, probes, trace, nontrivial):
    seen, uniq = set(), []
    for v in violations:
        if v["signature"] not in seen:
            seen.add(v["signature"])
            uniq.append(v)
    return {"violations": uniq, "digest": core.digest([sc, trace]), "hdigest": core.digest(sc), "rdigest": core.digest(_ws_free(trace)),
            "decisions": [], "nontrivial": nontrivial, "probes": probes, "faults": {}, "steps": len(trace), "sim_s": 0.0,
            "states": [core.digest(t) for t in trace[-2:]], "sched": core.digest(sc["calls"]),
            "summary": {"calls": sc["calls"], "input": sc["input"], "rows": len(sc["rows"])}}
