"""C17 - Remodeling operations are pure functions of their parameters and input table.

History machine: one long-lived Dispatcher built from a generated operation list processes a seeded
sequence of tables (repeats allowed), interleaved with RemodelerValidator.validate and construction of
a second dispatcher from the same list object; every result is compared with a fresh dispatcher on deep
copies (history independence), the parameter list and the input tables are compared with their
snapshots (purity), an independent list-of-dicts model gives the documented meaning, and every run is
executed under two PYTHONHASHSEEDs in fresh interpreters (hash-order independence).  A sub-batch runs
run_remodel.main on a scratch tree through the file-system layer: an invalid model must raise before
any file under the data root is touched.  See DESIGN.md 4/C17.
"""
import copy
import io
import json
import os
import shutil
import tempfile

from sim import core
from sim.core import Decider, Gen, Violation
from sim.sched import Sim
from sim.simfs import SimFS, real_open

PROP = "C17"
LEVEL = "exploration"
HASH_VARIANTS = 2
RUNS = {"quick": 4000, "thorough": 200000}
WALL_LIMIT = {"quick": 1200, "thorough": 5 * 3600}
PROBES = ["same_table_twice", "second_table_after_first", "optional_param_absent", "validate_interleaved",
          "second_dispatcher_same_ops", "invalid_list_checked", "cli_invalid_checked", "cli_valid_checked", "na_cells_in_input",
          "model_full_equality", "model_structural", "numeric_looking_values", "op_" + "remove_rows", "op_remove_columns",
          "op_rename_columns", "op_reorder_columns", "op_factor_column", "op_remap_columns", "op_merge_consecutive",
          "op_split_rows"]
RULE = ("Each run generates an operation list of 1-3 operations from the operations' own JSON specifications (every optional "
        "parameter independently present or absent, flags both ways) over a tracked column set, 1-3 small tables (2-6 rows; "
        "onset, duration and 1-3 other columns; n/a, numeric-looking and duplicate values) and a call history of 2-6 "
        "run_operations calls interleaved with validate() and a second dispatcher on the same list object; 1 run in 6 is an "
        "invalid list (validation must report), 1 in 12 goes through run_remodel.main on a scratch tree.  Non-trivial: a "
        "table processed after another one or repeatedly by the same dispatcher.  Distinct = distinct sha-256 of "
        "(scenario, results).")
COMPONENTS = {"real": ["Dispatcher.run_operations/prep_data/post_proc_data/parse_operations", "the eight *_op.py operations",
                       "RemodelerValidator", "KeyMap", "run_remodel.main/parse_arguments (sub-batch)", "pandas"],
              "stub": []}
ASSUMPTIONS = ["full result equality is asserted only where the in-repo docstrings fix the meaning (remove_rows on text "
               "values, remove/rename/reorder columns, factor_column, remap_columns on text sources); merge_consecutive and "
               "split_rows are held to structural invariants", "cells are compared as text; numerically equal cells are equal",
               "reorder_columns.ignore_missing=False with a missing column: both skip and ValueError are accepted (docstring "
               "contradicts itself); generated lists avoid it"]

_W = {}


def _init():
    if _W:
        return _W
    import warnings
    warnings.simplefilter("ignore")
    import pandas as pd
    from hed.tools.remodeling.dispatcher import Dispatcher
    from hed.tools.remodeling.remodeler_validator import RemodelerValidator
    from hed.tools.remodeling.cli import run_remodel
    base = tempfile.mkdtemp(prefix="verif-c17-%d-" % os.getpid(), dir="/dev/shm" if os.path.isdir("/dev/shm") else None)
    import atexit
    atexit.register(shutil.rmtree, base, True)
    _W.update(pd=pd, Dispatcher=Dispatcher, Validator=RemodelerValidator, validator=RemodelerValidator(), cli=run_remodel,
              base=base)
    # class-level containers of the dispatcher and operation classes as they are in a fresh interpreter: every run starts
    # from them (a run is a fresh process as far as the library can tell)
    from hed.tools.remodeling.operations.valid_operations import valid_operations
    classes = [Dispatcher] + sorted(set(valid_operations.values()), key=lambda c: c.__name__)
    for c in list(classes):
        for b in c.__mro__[1:]:
            if b is not object and b not in classes:
                classes.append(b)
    snap = []
    for c in classes:
        for name, v in sorted(vars(c).items()):
            if not name.startswith("__") and type(v) in (dict, list, set):
                snap.append((c, name, v, copy.deepcopy(v)))
    _W["class_state"] = (classes, snap)
    return _W


def _fresh_process_state(W):
    classes, snap = W["class_state"]
    known = {(c, n) for c, n, _, _ in snap}
    for c, name, obj, val in snap:
        if type(obj) is list:
            obj[:] = copy.deepcopy(val)
        else:
            obj.clear()
            obj.update(copy.deepcopy(val))
        if vars(c).get(name) is not obj:
            setattr(c, name, obj)
    for c in classes:
        for name, v in list(vars(c).items()):
            if not name.startswith("__") and (c, name) not in known and type(v) in (dict, list, set):
                v.clear()


# ------------------------------------------------------------------------------------------- tables
DOMAINS = {"trial_type": ["go", "stop", "rest"], "response": ["left", "right", "3 o'clock"], "stim": ["a.png", "b.png", "c.png"],
           "code": ["1", "2", "3"]}


def _gen_table(g, cols):
    n = g.randint(2, 6)
    rows = []
    t = 0.0
    for _ in range(n):
        t = round(t + g.choice([0.5, 1.0, 1.5, 2.25]), 2)
        row = {"onset": "%g" % t, "duration": g.choice(["0.5", "1", "n/a", "2.5"])}
        for c in cols:
            row[c] = g.choice(DOMAINS[c] + (["n/a"] if g.chance(0.5) else []))
        rows.append(row)
    # duplicates / runs of consecutive equal values
    if g.chance(0.5) and n >= 3:
        i = g.randrange(1, n)
        for c in cols:
            rows[i][c] = rows[i - 1][c]
    order = ["onset", "duration"] + cols
    if g.chance(0.3):
        order = ["onset"] + g.shuffled(order[1:])
    return {"columns": order, "rows": [[r[c] for c in order] for r in rows]}


def _to_tsv(t):
    return "\n".join(["\t".join(t["columns"])] + ["\t".join(r) for r in t["rows"]]) + "\n"


def _read(W, t):
    return W["pd"].read_csv(io.StringIO(_to_tsv(t)), sep="\t", header=0, keep_default_na=False, na_values=",null")


# ------------------------------------------------------------------------------------------- operation generation
def _gen_op(g, kind, cols, stats):
    """Returns (operation dict, new column list).  `cols` are the columns every table has at this point."""
    other = [c for c in cols if c not in ("onset", "duration")]
    p = {}
    new_cols = list(cols)
    if kind == "remove_rows":
        c = g.pick(other) if other and g.chance(0.9) else "no_such_column"
        dom = DOMAINS.get(c, ["x"])
        vals = g.sample(dom, g.randint(1, min(2, len(dom))))
        if c == "code" and g.chance(0.5):
            vals = [int(v) for v in vals]
            stats.append("numeric_looking_values")
        elif g.chance(0.2) and "duration" in cols:
            c = "duration"
            vals = g.sample([1, 0.5, 2.5], g.randint(1, 2))       # the integer 1 must remove '1' / 1.0
            stats.append("numeric_looking_values")
        elif g.chance(0.15):
            vals = vals + ["nan"]                                   # must not remove rows whose cell is n/a
        p = {"column_name": c, "remove_values": vals}
    elif kind == "remove_columns":
        names = g.sample(other, g.randint(1, len(other))) if other else []
        ign = g.chance(0.5)
        if ign and g.chance(0.5) or not names:
            names.append("ghost")
            ign = True
        p = {"column_names": names, "ignore_missing": ign}
        new_cols = [c for c in cols if c not in names]
    elif kind == "rename_columns":
        names = g.sample(other, g.randint(1, len(other))) if other else []
        mapping = {c: c + "_new" for c in names}
        if len(names) >= 2 and g.chance(0.5):
            # the mapping is applied all at once: a swap, a cycle or a chain of existing names is a permutation of headers
            how = g.pick(["swap", "cycle", "chain"])
            if how == "chain":
                mapping = {names[i]: (names[i + 1] if i + 1 < len(names) else names[i] + "_new") for i in range(len(names))}
            else:
                k_ = 2 if how == "swap" else len(names)
                mapping = {names[i]: names[(i + 1) % k_] for i in range(k_)}
            stats.append("rename_permutes_existing_names")
        ign = g.chance(0.5)
        if ign and g.chance(0.5) or not names:
            mapping["ghost"] = "ghost_new"
            ign = True
        p = {"column_mapping": mapping, "ignore_missing": ign}
        new_cols = [mapping.get(c, c) for c in cols]
        if "rename_permutes_existing_names" in stats[-1:]:
            new_cols = None      # the names now hold other kinds of values: stop chaining
    elif kind == "reorder_columns":
        order = g.sample(cols, g.randint(1, len(cols)))
        ign = g.chance(0.5)
        if ign and g.chance(0.4):
            order.insert(g.randrange(len(order) + 1), "ghost")
        keep = g.chance(0.5)
        p = {"column_order": order, "ignore_missing": ign, "keep_others": keep}
        new_cols = [c for c in order if c in cols] + ([c for c in cols if c not in order] if keep else [])
    elif kind == "factor_column":
        c = g.pick(other) if other else "duration"
        dom = DOMAINS.get(c, ["0.5", "1"])
        p = {"column_name": c}
        if g.chance(0.55):
            vals = g.sample(dom, g.randint(1, len(dom)))
            p["factor_values"] = vals
            if g.chance(0.5):
                p["factor_names"] = ["f_%s_%d" % (c, i) for i in range(len(vals))]
                new_cols = cols + p["factor_names"]
            else:
                stats.append("optional_param_absent")
                new_cols = cols + ["%s.%s" % (c, v) for v in vals]
        else:
            stats.append("optional_param_absent")
            new_cols = None      # data dependent: stop chaining
    elif kind == "remap_columns":
        usable = [c for c in other if not c.startswith("map_")]
        if not usable:
            return _gen_op(g, "remove_rows", cols, stats)
        srcs = g.sample(usable, g.randint(1, min(2, len(usable))))
        k0 = len([c for c in cols if c.startswith("map_")])
        dests = ["map_%d" % (k0 + i) for i in range(g.randint(1, 2))]
        combos = [[]]
        for s in srcs:
            combos = [c + [v] for c in combos for v in DOMAINS.get(s, ["0.5", "1"]) + ["n/a"]]
        rows = g.sample(combos, g.randint(1, min(4, len(combos))) if g.chance(0.4) else min(len(combos), g.randint(2, 4)))
        map_list = [r + ["%s%d" % (d, i) for d in dests] for i, r in enumerate(rows)]
        p = {"source_columns": srcs, "destination_columns": dests, "map_list": map_list, "ignore_missing": True}
        if "code" in srcs and g.chance(0.5):
            p["integer_sources"] = ["code"]
            for r in p["map_list"]:
                i = srcs.index("code")
                if r[i] != "n/a":
                    r[i] = int(r[i])
            stats.append("numeric_looking_values")
        else:
            stats.append("optional_param_absent")
        new_cols = cols + dests
    elif kind == "merge_consecutive":
        c = g.pick(other) if other else "duration"
        dom = DOMAINS.get(c, ["0.5", "1"])
        p = {"column_name": c, "event_code": g.pick(dom), "set_durations": g.chance(0.5), "ignore_missing": g.chance(0.5)}
        rest = [x for x in other if x != c]
        if g.chance(0.5) and rest:
            p["match_columns"] = g.sample(rest, g.randint(1, len(rest)))
        else:
            stats.append("optional_param_absent")
    elif kind == "split_rows":
        anchor = g.pick(other) if other and g.chance(0.7) else "event_kind"
        evs = {}
        for i in range(g.randint(1, 2)):
            e = {"onset_source": g.pick([[0.1], ["duration"], ["duration", 0.25], [0]]),
                 "duration": g.pick([[0], [0.2], ["duration"]])}
            cc = [x for x in other if x != anchor]
            if g.chance(0.5) and cc:
                e["copy_columns"] = g.sample(cc, g.randint(1, len(cc)))
            else:
                stats.append("optional_param_absent")
            # event names are free text (any key is a legal event name)
            evs[g.pick(["ev%d", "ev%d", "stop-signal %d", "resp.left%d", "go/no-go-%d"]) % i] = e
        p = {"anchor_column": anchor, "new_events": evs, "remove_parent_row": g.chance(0.5)}
        new_cols = None      # the anchor column now holds the new event names: stop chaining (value kinds changed)
    return {"operation": kind, "description": "generated", "parameters": p}, new_cols


KINDS = ["remove_rows", "remove_columns", "rename_columns", "reorder_columns", "factor_column", "remap_columns",
         "merge_consecutive", "split_rows"]


def _invalidate(g, ops):
    """Make the list invalid in one seeded way; returns a label."""
    i = g.randrange(len(ops))
    op = ops[i]
    choices = ["missing-required", "wrong-type", "unknown-operation", "extra-field", "extra-param", "not-a-list-item",
               "missing-description"]
    k = op["operation"]
    if k == "factor_column":
        choices += ["factor-names-without-values", "factor-length-mismatch"]
    if k == "remap_columns":
        choices += ["map-row-wrong-length", "integer-sources-not-sources"]
    if k == "merge_consecutive":
        choices += ["column-in-match-columns"]
    if k == "split_rows":
        choices += ["split-event-without-duration", "split-event-onset-source-not-a-list", "split-event-without-duration"]
    how = g.pick(choices)
    p = op["parameters"]
    if how == "missing-required":
        key = sorted(p)[0]
        del p[key]
    elif how == "wrong-type":
        key = sorted(p)[0]
        p[key] = 12345 if not isinstance(p[key], (int, float)) or isinstance(p[key], bool) else {"a": 1}
    elif how == "unknown-operation":
        op["operation"] = "remove_everything"
    elif how == "extra-field":
        op["comment"] = "x"
    elif how == "extra-param":
        p["no_such_parameter"] = True
    elif how == "not-a-list-item":
        ops[i] = "remove_rows"
    elif how == "missing-description":
        del op["description"]
    elif how == "factor-names-without-values":
        p.pop("factor_values", None)
        p["factor_names"] = ["a"]
    elif how == "factor-length-mismatch":
        p["factor_values"] = ["go", "stop"]
        p["factor_names"] = ["only_one"]
    elif how == "map-row-wrong-length":
        j = g.randrange(len(p["map_list"]))
        if g.chance(0.5) or len(p["map_list"][j]) < 2:
            p["map_list"][j] = p["map_list"][j] + ["extra"]
        else:
            p["map_list"][j] = p["map_list"][j][:-1]
    elif how == "integer-sources-not-sources":
        p["integer_sources"] = ["not_a_source"]
    elif how == "column-in-match-columns":
        p["match_columns"] = [p["column_name"]]
    elif how == "split-event-without-duration":
        del p["new_events"][g.pick(sorted(p["new_events"]))]["duration"]
    elif how == "split-event-onset-source-not-a-list":
        p["new_events"][g.pick(sorted(p["new_events"]))]["onset_source"] = "duration"
    return how


def generate(run_index, seed, tier):
    g = Gen(seed)
    cols = g.sample(["trial_type", "response", "stim", "code"], g.randint(1, 3))
    stats = []
    tables = [_gen_table(g, cols) for _ in range(g.randint(1, 3))]
    # all tables share the column set (the property speaks of tables that contain the columns the list names)
    ops = []
    cur = list(tables[0]["columns"])
    common = [c for c in cur if all(c in t["columns"] for t in tables)]
    cur = common
    for _ in range(g.randint(1, 3)):
        kind = g.pick(KINDS)
        if kind in ("merge_consecutive", "split_rows") and not ("onset" in cur and "duration" in cur):
            kind = "remove_rows"
        op, cur2 = _gen_op(g, kind, cur, stats)
        ops.append(op)
        if cur2 is None:
            break
        cur = list(dict.fromkeys(cur2))      # an overwritten column keeps its place: no duplicate names
        if len([c for c in cur if c not in ("onset", "duration")]) == 0 and len(cur) < 2:
            break
    if ops and ops[0]["operation"] == "merge_consecutive":
        # make the first operation bite: a run of rows carrying its event code (and equal match columns) in every table, one of
        # the merged-away rows without a duration (own generator: the main stream of choices is left as it was)
        g2 = Gen(seed ^ 0x5EED17)
        p0 = ops[0]["parameters"]
        for t in tables:
            c = p0["column_name"]
            if c not in t["columns"] or len(t["rows"]) < 2 or not g2.chance(0.7):
                continue
            ci, di = t["columns"].index(c), t["columns"].index("duration")
            i = g2.randrange(1, len(t["rows"]))
            n_run = g2.pick([2, 2, 3])
            for j in range(max(0, i - n_run + 1), i + 1):
                t["rows"][j][ci] = str(p0["event_code"])
                for mc in p0.get("match_columns", []):
                    if mc in t["columns"]:
                        t["rows"][j][t["columns"].index(mc)] = t["rows"][i][t["columns"].index(mc)]
            if g2.chance(0.6):
                t["rows"][i][di] = "n/a"
            elif g2.chance(0.5):
                t["rows"][max(0, i - n_run + 1)][di] = "7.5"       # the anchor ends last
    sc = {"ops": ops, "tables": tables, "stats": stats}
    r = run_index % 12
    if r in (3, 9):
        sc["kind"] = "invalid"
        sc["how"] = _invalidate(g, sc["ops"])
        if r == 9 and g.chance(0.5):
            sc["kind"] = "cli-invalid"
    elif r == 6:
        sc["kind"] = "cli-valid"
    else:
        sc["kind"] = "history"
    calls = []
    for _ in range(g.randint(2, 6)):
        x = g.random()
        if x < 0.7:
            calls.append(["run", g.randrange(len(tables))])
        elif x < 0.85:
            calls.append(["validate", 0])
        else:
            calls.append(["second_dispatcher", g.randrange(len(tables))])
    if not any(c[0] == "run" for c in calls):
        calls.append(["run", 0])
    sc["calls"] = calls
    sc["sched_seed"] = g.randrange(1 << 30)
    sc["twin_first"] = g.chance(0.4)
    return sc


def shrink(sc):
    if sc.get("twin_first"):
        c = copy.deepcopy(sc)
        c["twin_first"] = False
        yield c
    for i in range(len(sc["calls"])):
        if len(sc["calls"]) > 1:
            c = copy.deepcopy(sc)
            del c["calls"][i]
            yield c
    for i in range(len(sc["ops"])):
        if len(sc["ops"]) > 1:
            c = copy.deepcopy(sc)
            del c["ops"][i]
            yield c
    for i in range(len(sc["tables"])):
        if len(sc["tables"]) > 1:
            c = copy.deepcopy(sc)
            del c["tables"][i]
            c["calls"] = [[k, (j - 1 if j > i else j)] for k, j in c["calls"] if j != i or k == "validate"]
            c["calls"] = [[k, min(j, len(c["tables"]) - 1)] for k, j in c["calls"]]
            if c["calls"]:
                yield c
    for ti, t in enumerate(sc["tables"]):
        for ri in range(len(t["rows"])):
            if len(t["rows"]) > 1:
                c = copy.deepcopy(sc)
                del c["tables"][ti]["rows"][ri]
                yield c
    # drop optional parameters / shrink lists inside parameters
    for i, op in enumerate(sc["ops"]):
        if not isinstance(op, dict) or not isinstance(op.get("parameters"), dict):
            continue
        for k, v in op["parameters"].items():
            if isinstance(v, list) and len(v) > 1:
                for j in range(len(v)):
                    c = copy.deepcopy(sc)
                    del c["ops"][i]["parameters"][k][j]
                    yield c


# ------------------------------------------------------------------------------------------- reference model
def _num(s):
    try:
        return float(s)
    except (TypeError, ValueError):
        return None


def _cell_eq(a, b):
    if a == b:
        return True
    fa, fb = _num(a), _num(b)
    return fa is not None and fb is not None and abs(fa - fb) < 1e-9


def _table_eq(a, b):
    if a["columns"] != b["columns"]:
        return False
    if not a["columns"]:
        return True
    if len(a["rows"]) != len(b["rows"]):
        return False
    return all(_cell_eq(x, y) for ra, rb in zip(a["rows"], b["rows"]) for x, y in zip(ra, rb))


def _df_to_table(df):
    cols = [str(c) for c in df.columns]
    rows = []
    for rec in df.itertuples(index=False, name=None):
        rows.append([_cell_text(v) for v in rec])
    return {"columns": cols, "rows": rows}


def _cell_text(v):
    if isinstance(v, float):
        if v != v:
            return "NaN!"
        return "%g" % v if abs(v) < 1e15 else repr(v)
    return str(v)


def _model_op(op, t):
    """Returns ('full', table) | ('structural', checker) | ('skip', None) for one operation on table t."""
    k, p = op["operation"], op["parameters"]
    cols, rows = t["columns"], t["rows"]

    def col(c):
        i = cols.index(c)
        return [r[i] for r in rows]
    if k == "remove_rows":
        c = p["column_name"]
        if c not in cols:
            return "full", t
        if "n/a" in p["remove_values"]:
            return "skip", None
        i = cols.index(c)
        cells = col(c)
        if c not in t.get("_text", ()) and all(_num(x) is not None for x in cells) \
                and all(not isinstance(v, str) for v in p["remove_values"]):
            # an all-numeric column and numeric values: numeric equality (1 removes 1.0)
            vals = [float(v) for v in p["remove_values"]]
            return "full", {"columns": cols, "rows": [r for r in rows if _num(r[i]) not in vals]}
        if any(not isinstance(v, str) for v in p["remove_values"]) or any(_num(x) is not None for x in cells):
            return "skip", None      # text against numbers: the docs do not fix how such values compare
        return "full", {"columns": cols, "rows": [r for r in rows if r[i] not in p["remove_values"]]}
    if k == "remove_columns":
        keep = [i for i, c in enumerate(cols) if c not in p["column_names"]]
        return "full", {"columns": [cols[i] for i in keep], "rows": [[r[i] for i in keep] for r in rows]}
    if k == "rename_columns":
        return "full", {"columns": [p["column_mapping"].get(c, c) for c in cols], "rows": rows}
    if k == "reorder_columns":
        order = [c for c in p["column_order"] if c in cols]
        if p["keep_others"]:
            order += [c for c in cols if c not in order]
        idx = [cols.index(c) for c in order]
        return "full", {"columns": order, "rows": [[r[i] for i in idx] for r in rows]}
    if k == "factor_column":
        c = p["column_name"]
        vals = p.get("factor_values")
        cells = col(c)
        if not vals:
            if "n/a" in cells:
                return "skip", None
            vals = []
            for x in cells:
                if x not in vals:
                    vals.append(x)
            if any(_num(x) is not None for x in vals):
                return "skip", None
        names = p.get("factor_names") or ["%s.%s" % (c, v) for v in vals]
        if any(_num(x) is not None for x in cells if x != "n/a") and c != "code":
            return "skip", None
        out_cols = list(cols)
        new_rows = [list(r) for r in rows]
        ci0 = cols.index(c)
        for v, nm in zip(vals, names):
            flags = ["1" if r[ci0] == v else "0" for r in rows]
            if nm in out_cols:          # an existing column of that name is overwritten in place
                j = out_cols.index(nm)
                for r, f in zip(new_rows, flags):
                    r[j] = f
            else:
                out_cols.append(nm)
                for r, f in zip(new_rows, flags):
                    r.append(f)
        return "full", {"columns": out_cols, "rows": new_rows}
    if k == "remap_columns":
        srcs, dests = p["source_columns"], p["destination_columns"]
        m = {}
        for r in p["map_list"]:
            m.setdefault(tuple(str(x) for x in r[:len(srcs)]), [str(x) for x in r[len(srcs):]])
        if any(_num(x) is not None and s != "code" for s in srcs for x in col(s)):
            return "skip", None
        idx = [cols.index(s) for s in srcs]
        out_cols = list(cols) + [d for d in dests if d not in cols]
        new_rows = []
        for r in rows:
            vals = m.get(tuple(r[i] for i in idx), ["n/a"] * len(dests))
            q = list(r) + [None] * (len(out_cols) - len(cols))
            for d, v in zip(dests, vals):
                q[out_cols.index(d)] = v       # an existing destination column is overwritten
            new_rows.append(q)
        return "full", {"columns": out_cols, "rows": new_rows}
    if k == "merge_consecutive":
        c = p["column_name"]
        code = p["event_code"]
        if any(_num(x) is not None for x in col(c)) or not isinstance(code, str):
            return "skip", None      # numeric(-looking) key column: the docs do not fix how the code compares
        mc = [x for x in (p.get("match_columns") or []) if x in cols] + [c]
        idx = [cols.index(x) for x in mc]
        ci = cols.index(c)
        removed = set()
        in_group = False
        for i, r in enumerate(rows):
            if r[ci] != str(code):
                in_group = False
                continue
            if not in_group:
                in_group = True
                continue
            if [r[j] for j in idx] == [rows[i - 1][j] for j in idx]:
                removed.add(i)
        kept = [r for i, r in enumerate(rows) if i not in removed]
        kept_idx = [i for i in range(len(rows)) if i not in removed]
        di = cols.index("duration") if "duration" in cols else None
        oi = cols.index("onset") if "onset" in cols else None
        # set_durations: "the duration of the merged event is the extent of the merged events": from the anchor's onset to
        # the latest end among the merged rows; a row without a duration ends where it starts
        extent = {}
        if p["set_durations"] and di is not None and oi is not None:
            members = {}
            for i in sorted(removed):
                a = i - 1
                while a in removed:
                    a -= 1
                members.setdefault(a, [a]).append(i)
            for a, grp in members.items():
                ons = [_num(rows[i][oi]) for i in grp]
                if any(x is None for x in ons):
                    extent[a] = None          # not judged
                    continue
                ends = [o + (_num(rows[i][di]) or 0.0) for o, i in zip(ons, grp)]
                extent[a] = max(ends) - ons[0]

        def checker(res):
            if res["columns"] != cols:
                return "columns changed: %s" % res["columns"]
            if len(res["rows"]) != len(kept):
                return "expected %d rows after merging consecutive %r rows, got %d" % (len(kept), code, len(res["rows"]))
            for k_, (a, b) in enumerate(zip(kept, res["rows"])):
                for j, (x, y) in enumerate(zip(a, b)):
                    if j == di and kept_idx[k_] in extent:
                        want = extent[kept_idx[k_]]
                        if want is not None and (_num(y) is None or abs(_num(y) - want) > 1e-9):
                            return ("merged row %s: duration %r, but the merged rows extend %g s from its onset (rows %s)"
                                    % (a, y, want, [rows[i] for i in range(kept_idx[k_], (kept_idx[k_ + 1] if k_ + 1 < len(kept_idx)
                                                                                      else len(rows)))]))
                        continue
                    if j == di and p["set_durations"] and a[ci] == str(code):
                        continue
                    if not _cell_eq(x, y):
                        return "row %s became %s" % (a, b)
            return None
        return "structural", checker
    if k == "split_rows":
        anchor = p["anchor_column"]
        n_new = 0
        oi, di = cols.index("onset"), cols.index("duration")
        for ev, e in p["new_events"].items():
            for r in rows:
                ok = True
                for s in e["onset_source"]:
                    if isinstance(s, str):
                        ok = ok and _num(r[cols.index(s)]) is not None
                if ok:
                    n_new += 1
        want_cols = cols + ([anchor] if anchor not in cols else [])
        parents = [] if p["remove_parent_row"] else rows

        def checker(res):
            if res["columns"] != want_cols:
                return "columns %s, expected %s" % (res["columns"], want_cols)
            if len(res["rows"]) != len(parents) + n_new:
                return "expected %d parent + %d new rows, got %d" % (len(parents), n_new, len(res["rows"]))
            on = [_num(r[oi]) for r in res["rows"]]
            if any(x is None for x in on) or any(a > b + 1e-9 for a, b in zip(on, on[1:])):
                return "result is not sorted by onset: %s" % on
            ai = want_cols.index(anchor)
            pool = [list(r) for r in res["rows"]]
            for pr in parents:
                want = list(pr) + (["n/a"] if anchor not in cols else [])
                hit = None
                for q in pool:
                    if all(_cell_eq(x, y) for x, y in zip(want, q)):
                        hit = q
                        break
                if hit is None:
                    return "parent row %s is missing from the result" % want
                pool.remove(hit)
            names = sorted(p["new_events"])
            for q in pool:
                if q[ai] not in names:
                    return "a new row has anchor value %r, expected one of %s" % (q[ai], names)
            # the new rows themselves: onset = parent onset + terms, duration = sum of terms (n/a if a named column is
            # n/a in the parent row), anchor = event name, copied columns from the parent, everything else n/a
            for ev, e in p["new_events"].items():
                for r in rows:
                    on_v = _num(r[oi])
                    for s2 in e["onset_source"]:
                        on_v = None if on_v is None else (on_v + s2 if not isinstance(s2, str) else
                                                          (None if _num(r[cols.index(s2)]) is None else on_v + _num(r[cols.index(s2)])))
                    if on_v is None:
                        continue
                    du_v = 0.0
                    for s2 in e["duration"]:
                        if du_v is None:
                            break
                        if isinstance(s2, str):
                            du_v = None if _num(r[cols.index(s2)]) is None else du_v + _num(r[cols.index(s2)])
                        else:
                            du_v += s2
                    want = ["n/a"] * len(want_cols)
                    want[oi] = "%g" % on_v
                    want[di] = "n/a" if du_v is None else "%g" % du_v
                    for cc in e.get("copy_columns", []):
                        want[want_cols.index(cc)] = r[cols.index(cc)]
                    want[ai] = ev
                    hit = None
                    for q in pool:
                        if all(_cell_eq(x, y) for x, y in zip(want, q)):
                            hit = q
                            break
                    if hit is None:
                        return "expected a new row %s (event %s of parent %s) in the result, rows not accounted for: %s" % (want, ev, r, pool[:4])
                    pool.remove(hit)
            return None
        return "structural", checker
    return "skip", None


def _snapshot_df(df):
    return (list(df.columns), [str(t) for t in df.dtypes], list(df.index), _df_to_table(df)["rows"])


# ------------------------------------------------------------------------------------------- execution
def execute(sc, script=None):
    W = _init()
    _fresh_process_state(W)
    violations, probes, trace = [], {}, []

    def probe(k, n=1):
        probes[k] = probes.get(k, 0) + n

    def viol(clause, detail, sig):
        violations.append(Violation(clause, detail.replace(W["base"], "<scratch>"), sig).record(PROP))

    for s in sc.get("stats", []):
        probe(s)
    nontrivial = False
    ops = copy.deepcopy(sc["ops"])
    ops_snapshot = copy.deepcopy(ops)
    kind = sc["kind"]
    if kind in ("invalid", "cli-invalid"):
        probe("invalid_list_checked")
        try:
            errs = W["validator"].validate(ops)
        except Exception as e:  # noqa
            viol("validation-total", "validate() raised %s: %s on an invalid list (%s)" % (type(e).__name__, str(e)[:200], sc["how"]),
                 "validate-raises-%s-on-%s" % (type(e).__name__, sc["how"]))
            errs = None
        if errs is not None:
            if not errs or not all(isinstance(x, str) for x in errs):
                viol("validation-total", "an operation list made invalid by %r was accepted: validate() returned %r" % (sc["how"], errs),
                     "invalid-list-accepted-%s" % sc["how"])
            trace.append(["validate", len(errs)])
        if ops != ops_snapshot:
            viol("purity", "validate() changed the operation list", "validate-mutates-ops")
        if kind == "cli-invalid" and not violations:
            _run_cli(W, sc, ops, viol, probe, trace, expect_invalid=True)
        return _result(sc, violations, probes, trace, True)
    for op in ops:
        probe("op_" + op["operation"])
    try:
        errs = W["validator"].validate(ops)
    except Exception as e:  # noqa
        viol("validation-total", "validate() raised %s: %s" % (type(e).__name__, str(e)[:200]), "validate-raises-%s" % type(e).__name__)
        return _result(sc, violations, probes, trace, False)
    if errs:
        raise RuntimeError("generator produced a list the remodeler's validation rejects: %s\n%s" % (errs, ops))
    if kind == "cli-valid":
        _run_cli(W, sc, ops, viol, probe, trace, expect_invalid=False)
        return _result(sc, violations, probes, trace, True)
    Dispatcher = W["Dispatcher"]
    if sc.get("twin_first"):
        # another list was parsed and used in this process before: the same operations with every JSON number written in
        # the other numeric type (1 <-> 1.0).  Whatever it does, it must not influence the list under test.
        def retype(v):
            if isinstance(v, bool):
                return v
            if isinstance(v, int):
                return float(v)
            if isinstance(v, float) and v == int(v):
                return int(v)
            if isinstance(v, list):
                return [retype(x) for x in v]
            if isinstance(v, dict):
                return {k_: retype(x) for k_, x in v.items()}
            return v
        twin = retype(copy.deepcopy(sc["ops"]))
        if twin != sc["ops"] or json.dumps(twin) != json.dumps(sc["ops"]):
            probe("numeric_twin_list_used_first")
            try:
                Dispatcher(twin, data_root=None, backup_name=None).run_operations(_read(W, sc["tables"][0]))
            except Exception:  # noqa - the twin is not under test
                pass
    try:
        disp = Dispatcher(ops, data_root=None, backup_name=None)
    except Exception as e:  # noqa
        viol("completion", "Dispatcher(ops) raised %s: %s for a list that passed validation" % (type(e).__name__, str(e)[:300]),
             "dispatcher-construction-%s-%s" % (type(e).__name__, ops[0]["operation"]))
        return _result(sc, violations, probes, trace, False)
    dfs = [_read(W, t) for t in sc["tables"]]
    snaps = [_snapshot_df(d) for d in dfs]
    if any("n/a" in r for t in sc["tables"] for r in t["rows"]):
        probe("na_cells_in_input")
    seen_tables = []
    for ci, (call, ti) in enumerate(sc["calls"]):
        if violations:
            break
        if call == "validate":
            probe("validate_interleaved")
            try:
                e2 = W["validator"].validate(ops)
                if e2:
                    viol("history-independence", "validate() of the same list reports %s after %d calls" % (e2[:2], ci),
                         "validate-result-changes-after-use")
            except Exception as e:  # noqa
                viol("validation-total", "validate() raised %s after the list was used" % type(e).__name__, "validate-raises-after-use")
        else:
            if call == "second_dispatcher":
                probe("second_dispatcher_same_ops")
                try:
                    d = Dispatcher(ops, data_root=None, backup_name=None)
                except Exception as e:  # noqa
                    viol("history-independence", "a second Dispatcher built from the same list object raised %s: %s"
                         % (type(e).__name__, str(e)[:200]), "second-dispatcher-raises")
                    break
            else:
                d = disp
            if ti in seen_tables:
                probe("same_table_twice")
                nontrivial = True
            elif seen_tables:
                probe("second_table_after_first")
                nontrivial = True
            seen_tables.append(ti)
            res = _run_ops(d, dfs[ti], viol, "call %d (%s on table %d)" % (ci, call, ti), ops)
            if res is None:
                break
            got = _df_to_table(res)
            trace.append([call, ti, got])
            # (1) history independence: equals a fresh dispatcher on deep copies
            fresh = Dispatcher(copy.deepcopy(sc["ops"]), data_root=None, backup_name=None)
            try:
                ref = _df_to_table(fresh.run_operations(_read(W, sc["tables"][ti])))
            except Exception as e:  # noqa
                viol("completion", "a fresh dispatcher raised %s: %s" % (type(e).__name__, str(e)[:300]),
                     "completion-%s-%s" % (_failing_op(sc["ops"], e), type(e).__name__))
                break
            if not _table_eq(got, ref):
                viol("history-independence", "call %d: table %d processed by the used dispatcher gives\n%s\nbut a fresh dispatcher gives\n%s"
                     % (ci, ti, _to_tsv(got), _to_tsv(ref)), "used-vs-fresh-differs-%s" % "+".join(o["operation"] for o in sc["ops"]))
            # (1b) a list is the composition of its operations: running them one list at a time, each on the previous
            # result, gives the same table
            if len(sc["ops"]) > 1 and ti not in seen_tables[:-1]:
                try:
                    step = _read(W, sc["tables"][ti])
                    for o in sc["ops"]:
                        step = Dispatcher([copy.deepcopy(o)], data_root=None, backup_name=None).run_operations(step)
                    probe("composition_checked")
                    if not _table_eq(got, _df_to_table(step)):
                        viol("documented-meaning", "table %d: the list %s gives\n%s\nbut its operations applied one list at a time give\n%s"
                             % (ti, [o["operation"] for o in sc["ops"]], _to_tsv(got), _to_tsv(_df_to_table(step))),
                             "list-differs-from-composition-%s" % "+".join(o["operation"] for o in sc["ops"]))
                except Exception as e:  # noqa
                    viol("completion", "applying the operations one list at a time raised %s: %s" % (type(e).__name__, str(e)[:300]),
                         "composition-%s-%s" % (_failing_op(sc["ops"], e), type(e).__name__))
            # (3) documented meaning
            _check_model(sc, ti, got, viol, probe)
            if any("NaN!" in r for r in got["rows"]) or any(c == "nan" for r in got["rows"] for c in r):
                viol("documented-meaning", "result contains NaN instead of n/a:\n%s" % _to_tsv(got), "nan-in-result")
        # (2) purity
        if ops != ops_snapshot:
            viol("purity", "the operation list was changed by call %d (%s): %s -> %s"
                 % (ci, call, json.dumps(ops_snapshot)[:300], json.dumps(ops)[:300]),
                 "ops-mutated-%s" % _first_diff_op(ops_snapshot, ops))
        for k, d0 in enumerate(dfs):
            if _snapshot_df(d0) != snaps[k]:
                viol("purity", "input table %d was changed by call %d (%s)" % (k, ci, call), "input-table-mutated")
    return _result(sc, violations, probes, trace, nontrivial)


def _failing_op(ops, exc):
    import traceback
    tb = "".join(traceback.format_exception(exc))
    for o in reversed(ops):
        if (o["operation"] + "_op.py") in tb:
            return o["operation"]
    return ops[0]["operation"]


def _first_diff_op(a, b):
    for x, y in zip(a, b):
        if x != y:
            return x["operation"]
    return "list"


def _run_ops(d, df, viol, where, ops):
    try:
        return d.run_operations(df)
    except Exception as e:  # noqa
        op = _failing_op(ops, e)
        absent = ""
        for o in ops:
            if o["operation"] == op:
                opt = {"factor_column": ["factor_values", "factor_names"], "merge_consecutive": ["match_columns"],
                       "remap_columns": ["integer_sources"]}.get(op, [])
                missing = [k for k in opt if k not in o["parameters"]]
                if op == "split_rows" and any("copy_columns" not in ev for ev in o["parameters"]["new_events"].values()):
                    missing.append("copy_columns")
                if missing:
                    absent = "/no-" + "-".join(missing)
        viol("completion", "%s: run_operations raised %s: %s although the list passed validation"
             % (where, type(e).__name__, str(e)[:300]), "%s%s/%s" % (op, absent, type(e).__name__))
        return None


def _check_model(sc, ti, got, viol, probe):
    t = copy.deepcopy(sc["tables"][ti])
    # columns the library reads as text: any cell that is not a number (n/a included) makes the whole column text
    t["_text"] = sorted(c for i, c in enumerate(t["columns"]) if any(_num(r[i]) is None for r in t["rows"]))
    mode = "full"
    for op in sc["ops"]:
        text_cols = set(t.get("_text", ()))
        kind, out = _model_op(op, t)
        if kind == "skip":
            return
        if kind == "full":
            if op["operation"] == "remap_columns":
                text_cols |= set(op["parameters"]["source_columns"]) | set(op["parameters"]["destination_columns"])
            if op["operation"] == "rename_columns":
                text_cols = {op["parameters"]["column_mapping"].get(c, c) for c in text_cols}
            if op["operation"] == "factor_column":
                pass
            out = dict(out)
            out["_text"] = sorted(text_cols)
        if kind == "structural":
            if op is not sc["ops"][-1]:
                return           # cannot continue the model past a structurally-modelled operation
            probe("model_structural")
            msg = out(got) if mode == "full" else None
            if msg:
                viol("documented-meaning", "%s on\n%s\ngives\n%s\n%s" % (op["operation"], _to_tsv(t), _to_tsv(got), msg),
                     "structural-%s" % op["operation"])
            return
        t = out
    probe("model_full_equality")
    if not _table_eq(got, t):
        viol("documented-meaning", "operations %s on\n%s\ngive\n%s\nbut their documented meaning gives\n%s"
             % (json.dumps([o["operation"] for o in sc["ops"]]), _to_tsv(sc["tables"][ti]), _to_tsv(got), _to_tsv(t)),
             "result-differs-%s" % "+".join(o["operation"] for o in sc["ops"]))


def _run_cli(W, sc, ops, viol, probe, trace, expect_invalid):
    """run_remodel.main on a scratch data tree through the file-system layer."""
    import contextlib
    root = os.path.join(W["base"], "data")
    shutil.rmtree(root, ignore_errors=True)
    os.makedirs(os.path.join(root, "sub-01"))
    names = []
    for i, t in enumerate(sc["tables"]):
        p = os.path.join(root, "sub-01", "sub-01_run-%d_events.tsv" % i)
        with real_open(p, "w") as f:
            f.write(_to_tsv(t))
        names.append(p)
    model_dir = os.path.join(W["base"], "model")
    os.makedirs(model_dir, exist_ok=True)
    model_path = os.path.join(model_dir, "model.json")
    with real_open(model_path, "w") as f:
        json.dump(ops, f)
    before = {p: real_open(p, "rb").read() for p in names}
    sim = Sim(Decider(sc["sched_seed"]), max_steps=100000)
    fs = SimFS(sim, [root], chunk=1 << 20, copy_bufsize=1 << 20)

    def fn():
        with contextlib.redirect_stdout(io.StringIO()):
            W["cli"].main([root, model_path, "-nb", "-ns"])
        return True
    with fs:
        p = sim.run_one("run_remodel", fn)
    writes = sorted(w for w in fs.write_set if w is not None)
    trace.append(["cli", p.state, writes])
    if expect_invalid:
        probe("cli_invalid_checked")
        if p.state == "done":
            viol("never-partially-executed", "run_remodel.main accepted an invalid model (%s) and finished" % sc["how"],
                 "cli-runs-invalid-model-%s" % sc["how"])
        if writes or any(real_open(q, "rb").read() != before[q] for q in names):
            viol("never-partially-executed", "run_remodel.main with an invalid model (%s) touched %s before failing"
                 % (sc["how"], writes[:5]), "cli-touches-files-before-validation")
    else:
        probe("cli_valid_checked")
        if p.state != "done":
            viol("completion", "run_remodel.main raised %s: %s for a list that passed validation"
                 % (type(p.exc).__name__, str(p.exc)[:300]), "cli-%s/%s" % (_failing_op(ops, p.exc), type(p.exc).__name__))
            return
        Dispatcher = W["Dispatcher"]
        for i, q in enumerate(names):
            fresh = Dispatcher(copy.deepcopy(sc["ops"]), data_root=None, backup_name=None)
            ref = _df_to_table(fresh.run_operations(_read(W, sc["tables"][i])))
            try:
                got = _df_to_table(W["pd"].read_csv(q, sep="\t", header=0, keep_default_na=False, na_values=",null", dtype=str))
            except W["pd"].errors.EmptyDataError:
                got = {"columns": [], "rows": []}
            if not _table_eq(got, ref):
                viol("history-independence", "file %d written by run_remodel.main is\n%s\nbut a fresh dispatcher gives\n%s"
                     % (i, _to_tsv(got), _to_tsv(ref)), "cli-file-differs-from-fresh-%s" % "+".join(o["operation"] for o in sc["ops"]))
                break


def _result(sc, violations, probes, trace, nontrivial):
    seen, uniq = set(), []
    for v in violations:
        if v["signature"] not in seen:
            seen.add(v["signature"])
            uniq.append(v)
    return {"violations": uniq, "digest": core.digest([sc, trace]), "hdigest": core.digest(sc), "rdigest": core.digest(trace),
            "decisions": [], "nontrivial": nontrivial, "probes": probes, "faults": {}, "steps": len(trace), "sim_s": 0.0,
            "states": [core.digest(t) for t in trace[-2:]], "sched": core.digest(sc["calls"]),
            "summary": {"kind": sc["kind"], "ops": [o["operation"] if isinstance(o, dict) else "?" for o in sc["ops"]],
                        "calls": sc["calls"]}}
