"""C18 - Backups restore byte-for-byte and are never half-valid.

Each CLI invocation / API call sequence is one simulated process running the REAL BackupManager,
run_remodel_backup, run_remodel_restore and run_remodel code on a generated data tree in scratch,
through the file-system interposition layer.  Two sub-batches:
  * history (fault-free): sequences of backup / modify / delete / add / remodel / restore[tasks] /
    reopen, judged step by step against a {name -> {relpath: bytes}} reference model;
  * crash: for one backup operation EVERY file-system step is a crash point (kill before the step,
    torn variant for write steps, and in thorough mode an EIO/ENOSPC variant); after each crash a
    fresh BackupManager must either refuse / not list the backup or list it complete.
See DESIGN.md 4/C18.
"""
import copy
import io
import contextlib
import json
import os
import shutil
import tempfile

from sim import core
from sim.core import Decider, Gen, Violation
from sim.sched import Sim
from sim.simfs import SimFS, real_open, tree_state
from sim import stubs

PROP = "C18"
LEVEL = "fault_enumeration"
HASH_VARIANTS = 1
RUNS = {"quick": 480, "thorough": 24000}
WALL_LIMIT = {"quick": 1500, "thorough": 5 * 3600}
DET_SAMPLE = {"quick": 32, "thorough": 200}
PROBES = ["crash_points_enumerated", "crash_inside_copy", "crash_inside_record_write", "crash_before_first_mkdir",
          "crash_torn_write", "manager_refused_after_crash", "manager_listed_after_crash", "manager_not_listed_after_crash",
          "preexisting_backup_survived", "restore_exact_checked", "restore_after_delete", "restore_after_rmdir",
          "restore_tasks_nonempty_writeset", "restore_tasks_checked", "remodel_twice_checked",
          "remodel_modified_between", "second_backup_refused", "isolation_checked", "io_error_injected", "dispatch_reads_backup_checked", "same_manager_retry_after_io_error",
          "history_restore_killed", "history_remodel_killed", "size_preserving_edit", "root_given_through_symlink",
          "two_backups_used_in_one_process"]
RULE = ("Each run is one generated scenario (data tree of 2-8 files in 1-3 directory levels, BIDS-like names with and "
        "without a task entity in both spellings, sizes 0 B-200 kB, optional pre-existing backup, file selection as "
        "run_remodel_backup does it).  Runs with index%3==0 are crash scenarios: every file-system step of one backup "
        "operation is enumerated as a crash point (complete enumeration of the crash dimension within the scenario); "
        "other runs are operation histories of 3-10 operations, fault-free except that 1 restore / remodel run in 5 is killed at a seeded step (later restores and remodel runs are judged as usual).  Non-trivial: at least one crash point hit "
        "inside the backup, or a history containing a restore or a second remodel after a mutation.  Distinct = "
        "distinct sha-256 of the whole event history.")
COMPONENTS = {
    "real": ["hed.tools.remodeling.backup_manager.BackupManager (all methods)", "run_remodel_backup.main",
             "run_remodel_restore.main", "run_remodel.main (Dispatcher, operations, pandas read_csv/to_csv)",
             "hed.tools.util.io_util", "shutil.copy2/copystat", "os.makedirs/os.walk", "json.dump/load",
             "the scratch file system"],
    "stub": ["concurrent.futures.ThreadPoolExecutor / threading.Thread as seen by the modules under test (tasks run by the "
             "simulated process at a seeded moment and order; the shipped code starts no threads)", "datetime.now (simulated clock)", "the user's modifications between operations (direct file-system edits)"],
}
ASSUMPTIONS = [
    "crash model is process kill: delivered write steps stay, un-issued writes are lost; EIO/ENOSPC surface as OSError",
    "a backup manager that raises at construction (HedFileError / JSON decode error) counts as 'does not list the backup'",
    "file selection itself (which files a CLI call picks) is not judged; the recorded set is compared with io_util.get_file_list",
]

_W = {}


def _init_worker():
    if _W:
        return _W
    import hed  # noqa
    from hed.tools.remodeling import backup_manager
    from hed.tools.remodeling.cli import run_remodel_backup, run_remodel_restore, run_remodel
    from hed.tools.util import io_util
    from hed.errors.exceptions import HedFileError
    base = tempfile.mkdtemp(prefix="verif-c18-%d-" % os.getpid(),
                            dir="/dev/shm" if os.path.isdir("/dev/shm") else None)
    import atexit
    atexit.register(shutil.rmtree, base, True)
    _W.update(base=base, bm=backup_manager, cli_backup=run_remodel_backup, cli_restore=run_remodel_restore,
              cli_remodel=run_remodel, io_util=io_util, HedFileError=HedFileError)
    return _W


# ----------------------------------------------------------------------------------------- generation
TASKS = ["go", "stop", "rest"]


def _content(kind, seed, size):
    """Deterministic file content from small integers (keeps scenarios small)."""
    g = Gen(seed)
    if kind == "events":
        rows = ["onset\tduration\ttrial_type\tresponse\tvalue"]
        t = 0.0
        n = max(1, size // 28)
        for _ in range(n):
            t += g.choice([0.5, 1.0, 1.25, 2.0])
            rows.append("%.2f\t%s\t%s\t%s\t%d" % (t, g.choice(["0.5", "1", "n/a"]), g.choice(["go", "stop", "rest", "n/a"]),
                                                   g.choice(["left", "right", "n/a"]), g.randrange(100)))
        return ("\n".join(rows) + "\n").encode()
    if size == 0:
        return b""
    return bytes(g.randrange(32, 127) for _ in range(min(size, 64))) * (size // 64 + 1)


def _gen_tree(g):
    files = []
    n_sub = g.randint(1, 2)
    depth = g.randint(1, 3)
    spell = g.pick(["task-", "task-", "task_"])
    names = set()
    for s in range(1, n_sub + 1):
        sub = "sub-%02d" % s
        dirs = [sub]
        if depth >= 2:
            dirs.append("ses-1")
        if depth >= 3:
            dirs.append("func")
        for task in g.subset(TASKS, 1, 3):
            sp = spell if g.chance(0.8) else ("task_" if spell == "task-" else "task-")
            nm = "%s_%s%s_events.tsv" % (sub, sp, task)
            size = g.pick([40, 200, 600, 3000, 3000, 30000, 200000])
            files.append({"path": "/".join(dirs + [nm]), "kind": "events", "seed": g.randrange(10 ** 6), "size": size})
        if g.chance(0.4):
            files.append({"path": "/".join(dirs + ["%s_events.tsv" % sub]), "kind": "events",
                          "seed": g.randrange(10 ** 6), "size": g.pick([60, 400])})
        if g.chance(0.4):
            files.append({"path": "/".join(dirs + ["%s_%s%s_beh.tsv" % (sub, spell, g.pick(TASKS))]), "kind": "other",
                          "seed": g.randrange(10 ** 6), "size": g.pick([0, 10, 500, 70000])})
    if g.chance(0.25):
        files.append({"path": "sub-01/task-go_pilot/sub-01_%srest_events.tsv" % spell, "kind": "events",
                      "seed": g.randrange(10 ** 6), "size": 200})
    if g.chance(0.5):
        files.append({"path": "task-go_events.json", "kind": "other", "seed": g.randrange(10 ** 6), "size": g.pick([0, 2, 300])})
    if g.chance(0.3):
        files.append({"path": "derivatives/other/sub-01_task-go_events.tsv", "kind": "events",
                      "seed": g.randrange(10 ** 6), "size": 120})
    if g.chance(0.25):
        # directories named like components of the path that leads to the data root (".../shm/<scratch>/data")
        files.append({"path": "sub-01/data/sub-01_task-go_run-9_events.tsv", "kind": "events", "seed": g.randrange(10 ** 6), "size": 150})
        if g.chance(0.5):
            files.append({"path": "data/shm/loc_events.tsv", "kind": "events", "seed": g.randrange(10 ** 6), "size": 80})
    if g.chance(0.2):
        # names in decomposed unicode (e + combining acute): a path is a sequence of bytes, not a normal form
        files.append({"path": "sub-01/re\u0301sume\u0301/sub-01_task-go_cafe\u0301_events.tsv", "kind": "events",
                      "seed": g.randrange(10 ** 6), "size": 130})
    if g.chance(0.3):
        # same basename in two directories: the backup must keep them apart
        files.append({"path": "extra/a/dup_events.tsv", "kind": "events", "seed": g.randrange(10 ** 6), "size": 90})
        files.append({"path": "extra/b/dup_events.tsv", "kind": "events", "seed": g.randrange(10 ** 6), "size": 150})
    out = []
    for f in files:
        if f["path"] not in names:
            names.add(f["path"])
            out.append(f)
    return out[:12]


def _gen_selection(g):
    r = g.random()
    if r < 0.55:
        return {}
    if r < 0.7:
        return {"suffix": ["events", "beh"]}
    if r < 0.8:
        return {"suffix": ["*"], "ext": [".tsv", ".json"]}
    return {"tasks": g.subset(TASKS, 1, 2)}


MODELS = [
    [{"operation": "remove_columns", "description": "d", "parameters": {"column_names": ["value"], "ignore_missing": True}}],
    [{"operation": "rename_columns", "description": "d",
      "parameters": {"column_mapping": {"response": "resp"}, "ignore_missing": True}}],
    [{"operation": "remove_rows", "description": "d", "parameters": {"column_name": "trial_type", "remove_values": ["stop"]}}],
    [{"operation": "reorder_columns", "description": "d",
      "parameters": {"column_order": ["onset", "trial_type"], "ignore_missing": True, "keep_others": False}},
     {"operation": "remove_rows", "description": "d", "parameters": {"column_name": "trial_type", "remove_values": ["rest"]}}],
    # models that are NOT idempotent on their own output (so reading the data file instead of the backup shows)
    [{"operation": "split_rows", "description": "d",
      "parameters": {"anchor_column": "trial_type", "remove_parent_row": False,
                     "new_events": {"resp": {"onset_source": [0.25], "duration": [0], "copy_columns": ["response"]}}}}],
    [{"operation": "rename_columns", "description": "d",
      "parameters": {"column_mapping": {"response": "value2", "value2": "value3"}, "ignore_missing": True}}],
]


def generate(run_index, seed, tier):
    g = Gen(seed)
    sc = {"tree": _gen_tree(g), "chunk": g.pick([512, 4096, 65536, 1 << 20]),
          "bufsize": g.pick([4096, 65536, 1 << 20]), "permute": g.chance(0.4), "sched_seed": g.randrange(1 << 30),
          "t0": 1.7e9 + g.randrange(10 ** 6)}
    for f in sc["tree"]:
        f["age"] = g.pick([0.5, 1.0, 30.0, 3600.0, 86400.0 * 30])
    sc["root_link"] = g.chance(0.25)
    sc["pre_backup"] = g.chance(0.35)
    names = g.pick([["default_back", "bk1"], ["default_back", "bk1"], ["task-go_orig", "bk1"], [".orig", "bk1"], ["default_back", ".v2"]])
    if run_index % 3 == 0:
        sc["mode"] = "crash"
        ops = []
        if g.chance(0.3):
            ops.append({"op": "modify", "path": g.pick(sc["tree"])["path"], "how": g.pick(["append", "truncate", "rewrite"])})
        kinds = ["kill", "torn", "eio-retry"] + (["eio", "enospc"] if tier == "thorough" else [])
        ops.append({"op": "backup", "name": g.pick(names), "via": g.pick(["cli", "api", "api"]), "sel": _gen_selection(g),
                    "crash": "all", "crash_kinds": kinds})
        sc["ops"] = ops
        return sc
    sc["mode"] = "history"
    ops = [{"op": "backup", "name": names[0], "via": g.pick(["cli", "cli", "api"]), "sel": _gen_selection(g)}]
    paths = [f["path"] for f in sc["tree"]]
    for _ in range(g.randint(2, 8)):
        r = g.random()
        if r < 0.35:
            ops.append({"op": "modify", "path": g.pick(paths),
                        "how": g.pick(["append", "truncate", "rewrite", "delete", "delete", "rmdir", "recreate", "chmod",
                                      "flip", "flip", "flip-keep-mtime"])})
        elif r < 0.42:
            ops.append({"op": "add", "path": g.pick(["sub-01/new_notes.txt", "newdir/x_beh.tsv", "sub-01/extra.json"]),
                        "size": g.pick([0, 30, 5000])})
        elif r < 0.62:
            ops.append({"op": "restore", "name": g.pick(names), "via": g.pick(["cli", "api"]),
                        "tasks": g.pick([[], [], g.subset(TASKS, 1, 2)])})
            if ops[-1]["via"] == "api" and g.chance(0.4):
                ops[-1]["again"] = True
        elif r < 0.8:
            ops.append({"op": "remodel", "model": g.randrange(len(MODELS)), "name": names[0],
                        "twice": g.pick(["no", "yes", "yes", "modify-between"]), "tasks": g.pick([[], [], ["go"], ["*"]])})
        elif r < 0.86:
            ops.append({"op": "dispatch", "model": g.randrange(len(MODELS)), "name": names[0]})
        elif r < 0.94:
            ops.append({"op": "backup", "name": g.pick(names), "via": g.pick(["cli", "api"]), "sel": _gen_selection(g)})
        else:
            ops.append({"op": "reopen"})
    if g.chance(0.1):
        # a backup that recorded no file at all (its selection matched nothing) is a backup: the name is taken
        ops[0]["sel"] = {"suffix": ["nosuchsuffix"]}
        ops.insert(1, {"op": "backup", "name": names[0], "via": g.pick(["api", "cli"]), "sel": {}})
    if g.chance(0.12):
        # two backups of different content, then a script that works from both of them in one process
        ev = [q for q in paths if q.endswith("_events.tsv")]
        if ev:
            ops[1:1] = [{"op": "modify", "path": g.pick(ev), "how": "append"},
                        {"op": "modify", "path": g.pick(ev), "how": "append"},
                        {"op": "backup", "name": names[1], "via": "api", "sel": {}},
                        {"op": "dispatch", "model": g.randrange(len(MODELS)), "name": names[0]}]
    # an interrupted restore / remodel run is one more thing that "was done to the data files in between"
    for o in ops[1:]:
        if o["op"] in ("restore", "remodel") and g.chance(0.2):
            o["kill"] = {"step": g.pick([0, 1, 2, 3, 5, 8, 13, 21, 34, 55, 89, 144, 233]), "torn": g.pick([None, None, 0.5])}
    if not any(o["op"] == "restore" and not o.get("kill") for o in ops):
        ops.append({"op": "restore", "name": names[0], "via": g.pick(["cli", "api"]), "tasks": []})
    elif any(o.get("kill") for o in ops) and g.chance(0.7):
        ops.append({"op": "restore", "name": names[0], "via": g.pick(["cli", "api"]), "tasks": []})
    sc["ops"] = ops
    return sc


def apply_narrow(sc, narrow):
    c = copy.deepcopy(sc)
    for o in c["ops"]:
        if o.get("crash") == "all":
            o["crash"] = [narrow["crash_point"]]
    return c


def shrink(sc):
    ops = sc["ops"]
    for i in range(len(ops)):
        if len(ops) > 1:
            c = copy.deepcopy(sc)
            del c["ops"][i]
            yield c
    if sc.get("pre_backup"):
        c = copy.deepcopy(sc)
        c["pre_backup"] = False
        yield c
    used = {o.get("path") for o in ops}
    for i, f in enumerate(sc["tree"]):
        if len(sc["tree"]) > 1 and f["path"] not in used:
            c = copy.deepcopy(sc)
            del c["tree"][i]
            yield c
    for i, f in enumerate(sc["tree"]):
        if f["size"] > 60:
            c = copy.deepcopy(sc)
            c["tree"][i]["size"] = 60
            yield c
    for i, o in enumerate(ops):
        if o.get("kill"):
            c = copy.deepcopy(sc)
            del c["ops"][i]["kill"]
            yield c
            if o["kill"].get("torn") is not None:
                c = copy.deepcopy(sc)
                c["ops"][i]["kill"]["torn"] = None
                yield c
        if o.get("sel"):
            c = copy.deepcopy(sc)
            c["ops"][i]["sel"] = {}
            yield c
        if o.get("tasks"):
            c = copy.deepcopy(sc)
            c["ops"][i]["tasks"] = o["tasks"][:-1]
            yield c
        if o.get("twice") not in (None, "no"):
            c = copy.deepcopy(sc)
            c["ops"][i]["twice"] = "no" if o["twice"] == "yes" else "yes"
            yield c
        if o.get("via") == "cli":
            c = copy.deepcopy(sc)
            c["ops"][i]["via"] = "api"
            yield c
        if isinstance(o.get("crash"), list) and len(o["crash"]) == 1 and o["crash"][0][1] not in ("kill",):
            c = copy.deepcopy(sc)
            c["ops"][i]["crash"] = [[o["crash"][0][0], "kill"]]
            yield c
    for key, val in (("permute", False), ("chunk", 1 << 20), ("bufsize", 1 << 20)):
        if sc.get(key) != val:
            c = copy.deepcopy(sc)
            c[key] = val
            yield c


# ----------------------------------------------------------------------------------------- execution
class _World:
    def __init__(self, W, sc, script):
        self.W, self.sc = W, sc
        self.real_root = os.path.join(W["base"], "data")
        self.snap = os.path.join(W["base"], "snap")
        link = os.path.join(W["base"], "via", "link")
        if os.path.islink(link):
            os.unlink(link)
        shutil.rmtree(self.real_root, ignore_errors=True)
        shutil.rmtree(self.snap, ignore_errors=True)
        os.makedirs(self.real_root)
        # the path the library is given: the directory itself or (knob) a path with a symbolic-link component
        self.root = self.real_root
        if sc.get("root_link"):
            os.makedirs(os.path.dirname(link), exist_ok=True)
            os.symlink(self.real_root, link)
            self.root = link
        for f in sc["tree"]:
            p = os.path.join(self.real_root, f["path"])
            os.makedirs(os.path.dirname(p), exist_ok=True)
            with real_open(p, "wb") as fh:
                fh.write(_content(f["kind"], f["seed"], f["size"]))
            # modification times come from the scenario, not from the host clock
            mt = sc["t0"] - f.get("age", 3600.0)
            os.utime(p, (mt, mt))
        self.decider = Decider(sc["sched_seed"], script)
        self.sim = Sim(self.decider, max_steps=5000000, start_time=sc["t0"])
        self.fs = SimFS(self.sim, [self.root] + ([self.real_root] if self.root != self.real_root else []),
                        chunk=sc["chunk"], copy_bufsize=sc["bufsize"],
                        permute_listing=sc["permute"], proxy_reads=False, yield_stat=True)
        self.violations = []
        self.probes = {}
        self.model = {}            # backup name -> {rel: bytes}
        self.crashed_names = set()
        self.n_steps = 0

    def probe(self, k, n=1):
        self.probes[k] = self.probes.get(k, 0) + n

    def rel(self, path):
        return os.path.relpath(os.path.realpath(path), self.real_root)

    def viol(self, clause, detail, sig):
        self.violations.append(Violation(clause, detail.replace(self.W["base"], "<scratch>"), sig).record(PROP))

    # ---- running one "process"
    def run_proc(self, name, fn, faults=()):
        sim = self.sim
        self.fs.write_set = set()
        from sim import runner as _runner
        ps = _runner._PSTATE.get("ps")
        if ps is not None:
            ps.restore()          # a CLI invocation / script is a new OS process: nothing kept at module or class level survives
        p = sim.spawn(name, fn, op_dur=0.0005)
        for f in faults:
            ff = dict(f)
            ff["pid"] = p.pid
            sim.faults.setdefault((p.pid, f["step"]), []).append(ff)
        sim.run()
        if sim.truncated:
            raise RuntimeError("step cap reached")
        return p

    def data_state(self):
        st = tree_state(self.root, with_bytes=True)
        return {k: v for k, v in st.items() if v != "dir" and not k.startswith("derivatives/remodel")}

    def backup_dir_state(self, name):
        d = os.path.join(self.root, "derivatives/remodel/backups", name)
        return tree_state(d, with_bytes=True) if os.path.isdir(d) else None

    def fresh_manager(self):
        """What a new process sees: (manager | None, exception | None), evaluated outside the simulator."""
        try:
            return self.W["bm"].BackupManager(self.root), None
        except Exception as e:  # noqa
            return None, e


def _cli_args_backup(root, o):
    a = [root, "-bn", o["name"]]
    sel = o.get("sel") or {}
    if "suffix" in sel:
        a += ["-f"] + sel["suffix"]
    if "ext" in sel:
        a += ["-e"] + sel["ext"]
    if "tasks" in sel:
        a += ["-t"] + sel["tasks"]
    return a


def _selected_files(W, root, o):
    """The file list a backup call is given (same helper functions the CLI uses; selection is not judged)."""
    sel = o.get("sel") or {}
    suffix = sel.get("suffix", ["events"])
    ext = sel.get("ext", [".tsv"])
    if "*" in suffix:
        suffix = None
    files = W["io_util"].get_file_list(root, name_suffix=suffix, extensions=ext, exclude_dirs=["derivatives", "remodeling"])
    if sel.get("tasks"):
        files = W["io_util"].get_filtered_by_element(files, sel["tasks"])
    return sorted(files)


def _backup_fn(world, o):
    W, root = world.W, world.root

    def fn():
        with contextlib.redirect_stdout(io.StringIO()):
            if o["via"] == "cli":
                W["cli_backup"].main(_cli_args_backup(root, o))
                return True
            man = W["bm"].BackupManager(root)
            return man.create_backup(_selected_files(W, root, o), backup_name=o["name"])
    return fn


def _backup_retry_fn(world, o, before):
    """API use on one long-lived manager: create_backup, and after an OSError (disk full) the same call again on the SAME
    object.  Returns ('retried', [damaged recorded files as that manager lists them], second return value)."""
    W, root = world.W, world.root

    def fn():
        man = W["bm"].BackupManager(root)
        files = _selected_files(W, root, o)
        try:
            r = man.create_backup(files, backup_name=o["name"])
            return ("first-attempt-finished", [], r)
        except OSError:
            pass
        r2 = man.create_backup(files, backup_name=o["name"])
        rec = man.get_backup(o["name"])
        bad = []
        if rec is not None:
            broot = os.path.join(root, "derivatives/remodel/backups", o["name"], "backup_root")
            for key in rec:
                p = os.path.join(broot, key)
                try:
                    with real_open(p, "rb") as f:
                        data = f.read()
                except OSError:
                    bad.append((key, "missing"))
                    continue
                if before.get(key) != data:
                    bad.append((key, "%d bytes, data file has %s" % (len(data), None if before.get(key) is None else len(before[key]))))
        return ("retried", bad, r2)
    return fn


def _restore_fn(world, o):
    W, root = world.W, world.root

    def fn():
        with contextlib.redirect_stdout(io.StringIO()):
            if o["via"] == "cli":
                a = [root, "-bn", o["name"]]
                if o.get("tasks"):
                    a += ["-t"] + o["tasks"]
                W["cli_restore"].main(a)
                return True
            man = W["bm"].BackupManager(root)
            rec = man.get_backup(o["name"])
            if not rec:
                raise W["HedFileError"]("BackupDoesNotExist", o["name"], "")
            man.restore_backup(o["name"], task_names=o.get("tasks") or [], verbose=False)
            if o.get("again"):
                # the same manager object is used again after the data changed once more
                tk = o.get("tasks") or []
                for key in sorted(_task_files(list(rec), tk) if tk else rec)[:2]:
                    p_ = os.path.join(root, key)
                    if os.path.isfile(p_):
                        with real_open(p_, "ab") as fh:
                            fh.write(b"7.77\t1\tedited-again\tn/a\t2\n")
                if not tk:
                    # ... then for some tasks only, and finally in full again: what an earlier filtered restore on this
                    # object selected must not narrow a later full one (the final state is judged as a full restore)
                    first = [TASKS[len(rec) % len(TASKS)]]
                    man.restore_backup(o["name"], task_names=first, verbose=False)
                    keys = sorted(rec)
                    for key in keys[::max(1, len(keys) // 4)][:5]:
                        p_ = os.path.join(root, key)
                        if os.path.isfile(p_):
                            with real_open(p_, "ab") as fh:
                                fh.write(b"8.88\t1\tedited-after-filtered-restore\tn/a\t3\n")
                man.restore_backup(o["name"], task_names=o.get("tasks") or [], verbose=False)
            return True
    return fn


def _remodel_fn(world, o, model_path):
    W, root = world.W, world.root

    def fn():
        with contextlib.redirect_stdout(io.StringIO()):
            a = [root, model_path, "-bn", o["name"], "-x", "derivatives", "-ns"]
            if o.get("tasks"):
                a += ["-t"] + o["tasks"]
            W["cli_remodel"].main(a)
            return True
    return fn


def _task_files(rels, tasks):
    out = set()
    for r in rels:
        b = os.path.basename(r)
        if any(("task-" + t) in b or ("task_" + t) in b for t in tasks):
            out.add(r)
    return out


def execute(sc, script=None):
    W = _init_worker()
    world = _World(W, sc, script)
    sim, fs = world.sim, world.fs
    bm = W["bm"]
    saved_dt = bm.datetime
    bm.datetime = stubs.make_fake_datetime(sim)
    saved_dt2 = W["io_util"].datetime
    W["io_util"].datetime = bm.datetime
    model_dir = os.path.join(W["base"], "models")
    os.makedirs(model_dir, exist_ok=True)
    nontrivial = False
    # threads the code under test might start run as seeded tasks of the simulated process (no-op for code without threads)
    import hed.tools.remodeling.dispatcher as _disp
    thread_undo, thread_counts = stubs.bind_thread_seams(
        [bm, W["io_util"], _disp, W["cli_backup"], W["cli_restore"], W["cli_remodel"]], sim)
    if sc.get("root_link"):
        world.probe("root_given_through_symlink")
    try:
        with fs:
            if sc.get("pre_backup"):
                o = {"op": "backup", "name": "older", "via": "api", "sel": {"suffix": ["*"], "ext": [".tsv", ".json"]}}
                before = world.data_state()
                p = world.run_proc("pre-backup", _backup_fn(world, o))
                if p.state != "done" or p.result is not True:
                    raise RuntimeError("pre-existing backup could not be created: %s %r" % (p.state, p.exc))
                world.model["older"] = {world.rel(f): before[world.rel(f)]
                                        for f in _selected_files(W, world.root, o)}
            for oi, o in enumerate(sc["ops"]):
                kind = o["op"]
                if kind == "backup" and o.get("crash"):
                    nontrivial = _crash_sweep(world, o) or nontrivial
                elif kind == "backup":
                    _do_backup(world, o, oi)
                elif kind == "modify" or kind == "add":
                    _do_user_edit(world, o)
                elif kind in ("restore", "remodel") and o.get("kill"):
                    nontrivial = _do_killed(world, o, oi, model_dir) or nontrivial
                elif kind == "restore":
                    nontrivial = True
                    _do_restore(world, o, oi)
                elif kind == "remodel":
                    nontrivial = _do_remodel(world, o, oi, model_dir) or nontrivial
                elif kind == "dispatch":
                    nontrivial = _do_dispatch(world, o, oi) or nontrivial
                elif kind == "reopen":
                    man, exc = world.fresh_manager()
                    if man is None and not world.crashed_names:
                        world.viol("restore-exactness", "a fresh BackupManager raised %s: %s on a fault-free history"
                                   % (type(exc).__name__, str(exc)[:200]), "manager-raises-fault-free")
                _check_isolation(world, oi, o)
    finally:
        fs.uninstall()
        bm.datetime = saved_dt
        W["io_util"].datetime = saved_dt2
        for (m_, n_, v_) in thread_undo:
            setattr(m_, n_, v_)
    if thread_counts["tasks"]:
        world.probe("library_thread_tasks_simulated", thread_counts["tasks"])
    for k in ("listing_permuted", "io_error_raised"):
        if fs.counts.get(k):
            world.probe(k, fs.counts[k])
    faults = dict(sim.fired)
    if fs.counts.get("torn_prefix_delivered"):
        faults["torn_write"] = fs.counts["torn_prefix_delivered"]
    if fs.counts.get("listing_permuted"):
        faults["listing_permuted"] = fs.counts["listing_permuted"]
    hist = [list(h) for h in sim.history]
    seen, uniq = set(), []
    for v in world.violations:
        if v["signature"] not in seen:
            seen.add(v["signature"])
            uniq.append(v)
    return {"violations": uniq, "digest": core.digest(hist), "hdigest": core.digest([sc, world.decider.log]),
            "rdigest": "", "decisions": world.decider.log, "nontrivial": nontrivial or bool(sim.fired),
            "probes": world.probes, "faults": faults, "steps": sim.steps, "sim_s": sim.now - sc["t0"],
            "states": [core.digest(sorted((k, (len(v) if isinstance(v, bytes) else v)) for k, v in
                                          tree_state(world.root, with_bytes=True).items()))],
            "sched": core.digest(sim.schedule),
            "summary": {"mode": sc["mode"], "ops": [o["op"] for o in sc["ops"]], "steps": sim.steps}}


# ----------------------------------------------------------------------------------------- operations + oracles
def _listed_complete(world, name, expect, where, sig_prefix):
    """Invariant: if a fresh manager lists `name`, every recorded file is present with the expected bytes."""
    man, exc = world.fresh_manager()
    if man is None:
        return "refused", exc
    try:
        rec = man.get_backup(name)
    except Exception as e:  # noqa
        return "refused", e
    if rec is None:
        return "not-listed", None
    broot = os.path.join(world.root, "derivatives/remodel/backups", name, "backup_root")
    for key in rec:
        p = os.path.join(broot, key)
        if not os.path.isfile(p):
            world.viol("crash-consistency" if where == "crash" else "restore-exactness",
                       "backup %r is listed but its recorded file %s is missing (%s)" % (name, key, where),
                       sig_prefix + "listed-with-missing-file")
            return "listed-bad", None
        with real_open(p, "rb") as f:
            data = f.read()
        want = expect.get(key)
        if want is None or data != want:
            world.viol("crash-consistency" if where == "crash" else "restore-exactness",
                       "backup %r is listed but its recorded file %s has %d bytes, the data file had %s (%s)"
                       % (name, key, len(data), "no such file" if want is None else "%d bytes" % len(want), where),
                       sig_prefix + "listed-with-wrong-bytes")
            return "listed-bad", None
    return "listed", rec


def _do_backup(world, o, oi):
    W = world.W
    name = o["name"]
    before = world.data_state()
    bdir_before = world.backup_dir_state(name)
    exists_in_model = name in world.model
    try:
        expected_files = [world.rel(f) for f in _selected_files(W, world.root, o)]
    except Exception:  # noqa
        expected_files = None
    p = world.run_proc("backup", _backup_fn(world, o))
    after = world.data_state()
    if after != before:
        changed = sorted(k for k in set(before) | set(after) if before.get(k) != after.get(k))
        world.viol("backup-leaves-data", "creating backup %r changed data files %s" % (name, changed[:4]), "data-modified-by-backup")
    if exists_in_model:
        # no overwrite: digest unchanged and failure reported
        if world.backup_dir_state(name) != bdir_before:
            world.viol("no-overwrite", "a second backup named %r changed the existing backup directory" % name,
                       "existing-backup-changed-%s" % o["via"])
        reported = (p.state == "failed" and isinstance(p.exc, W["HedFileError"])) or (p.state == "done" and p.result is False)
        world.probe("second_backup_refused" if reported else "second_backup_silently_ignored")
        return
    if p.state != "done" or p.result is not True:
        if world.crashed_names:
            return
        world.viol("restore-exactness", "backup %r via %s failed on a fault-free history: %s %r"
                   % (name, o["via"], p.state, p.exc), "backup-failed-fault-free-%s" % type(p.exc).__name__)
        return
    if expected_files is not None:
        world.model[name] = {r: before[r] for r in expected_files}
    st, rec = _listed_complete(world, name, before, "fault-free", "")
    if st in ("refused", "not-listed"):
        world.viol("restore-exactness", "backup %r was created fault-free but a fresh manager %s (%r)" % (name, st, rec),
                   "created-backup-not-listed")
    elif st == "listed" and expected_files is not None and sorted(rec) != sorted(expected_files):
        world.viol("restore-exactness", "backup %r records %s but was given %s" % (name, sorted(rec)[:6], sorted(expected_files)[:6]),
                   "record-differs-from-file-list")


def _do_user_edit(world, o):
    p = os.path.join(world.root, o["path"])
    how = o.get("how", "add")
    if o["op"] == "add":
        os.makedirs(os.path.dirname(p), exist_ok=True)
        with real_open(p, "wb") as f:
            f.write(_content("other", len(o["path"]), o["size"]))
        return
    if how in ("append", "truncate", "rewrite", "chmod", "flip", "flip-keep-mtime") and not os.path.isfile(p):
        return
    if how in ("flip", "flip-keep-mtime"):
        # an edit that keeps the size (a corrected digit); the editor either stamps the simulated "now" or keeps the times
        st = os.stat(p)
        with real_open(p, "rb") as f:
            d = bytearray(f.read())
        if not d:
            return
        for i in (len(d) // 3, len(d) // 2, len(d) - 2):
            if 0 <= i < len(d) and d[i] not in (9, 10):
                d[i] = 0x39 if d[i] != 0x39 else 0x38
        with real_open(p, "wb") as f:
            f.write(bytes(d))
        if how == "flip":
            os.utime(p, (world.sim.now, world.sim.now))
        else:
            os.utime(p, (st.st_atime, st.st_mtime))
        world.probe("size_preserving_edit")
        return
    if how == "append":
        with real_open(p, "ab") as f:
            f.write(b"9.99\t1\tadded\tn/a\t1\n")
    elif how == "truncate":
        with real_open(p, "rb") as f:
            d = f.read()
        with real_open(p, "wb") as f:
            f.write(d[:len(d) // 2])
    elif how == "rewrite":
        with real_open(p, "wb") as f:
            f.write(b"onset\tduration\ttrial_type\n1.0\t1\tx\n")
    elif how == "delete":
        if os.path.isfile(p):
            os.unlink(p)
    elif how == "rmdir":
        d = os.path.dirname(p)
        if d != world.root and os.path.isdir(d) and "derivatives" not in os.path.relpath(d, world.root).split("/")[0:1]:
            shutil.rmtree(d)
    elif how == "recreate":
        if os.path.isfile(p):
            os.unlink(p)
        os.makedirs(os.path.dirname(p), exist_ok=True)
        with real_open(p, "wb") as f:
            f.write(b"onset\tduration\n0.1\t2\n")
    elif how == "chmod":
        os.chmod(p, 0o600)


def _do_restore(world, o, oi):
    W = world.W
    name, tasks = o["name"], o.get("tasks") or []
    before = world.data_state()
    p = world.run_proc("restore", _restore_fn(world, o))
    ws = {w for w in world.fs.write_set if w is not None}
    after = world.data_state()
    if name not in world.model:
        if p.state == "done":
            changed = [k for k in set(before) | set(after) if before.get(k) != after.get(k)]
            if changed:
                world.viol("restore-exactness", "restoring a backup %r that was never created changed %s" % (name, changed[:3]),
                           "restore-of-unknown-backup-writes")
        return
    rec = world.model[name]
    if not rec:
        return      # an empty backup: nothing to restore, the library may refuse it
    if p.state != "done":
        if world.crashed_names:
            return
        world.viol("restore-exactness", "restore of existing backup %r via %s raised %s: %s"
                   % (name, o["via"], type(p.exc).__name__, str(p.exc)[:200]),
                   "restore-raised-%s" % type(p.exc).__name__)
        return
    if tasks:
        world.probe("restore_tasks_checked")
        allowed = _task_files(rec.keys(), tasks)
        allowed_dirs = set()
        for a in allowed:
            d = os.path.dirname(a)
            while d:
                allowed_dirs.add(d)
                d = os.path.dirname(d)
        touched = {w for w in ws if not w.startswith("derivatives/remodel")
                   and not os.path.isdir(os.path.join(world.root, w))}
        bad = sorted(w for w in touched if w not in allowed and w not in allowed_dirs)
        changed = sorted(k for k in set(before) | set(after) if before.get(k) != after.get(k) and k not in allowed)
        if touched:
            world.probe("restore_tasks_nonempty_writeset")
        if bad or changed:
            world.viol("restore-tasks-confined", "restore of tasks %s touched %s / changed %s, which do not belong to those tasks"
                       % (tasks, bad[:4], changed[:4]), "touched-files-of-other-tasks")
        return
    world.probe("restore_exact_checked")
    for rel, data in sorted(rec.items()):
        if rel not in before:
            world.probe("restore_after_delete")
            if os.path.dirname(rel) and not any(k.startswith(os.path.dirname(rel) + "/") for k in before):
                world.probe("restore_after_rmdir")
        got = after.get(rel)
        if got != data:
            world.viol("restore-exactness", "after restore of %r, %s has %s, the backed-up content had %d bytes"
                       % (name, rel, "no file" if got is None else "%d bytes" % len(got), len(data)),
                       "restored-file-differs" if got is not None else "restored-file-missing")
            break


def _do_remodel(world, o, oi, model_dir):
    W = world.W
    name = o["name"]
    if name not in world.model:
        return False
    rec = world.model[name]
    # only judged when the backup covers every events file the remodeler will visit (otherwise it legitimately fails)
    visit = sorted(world.rel(f) for f in
                   W["io_util"].get_file_list(world.root, name_suffix="events", extensions=[".tsv"],
                                              exclude_dirs=["derivatives", "remodel"]))
    if o.get("tasks") == ["*"]:
        visit = [v for v in visit if W["io_util"].get_task_from_file(v)]
    elif o.get("tasks"):
        visit = [v for v in visit if W["io_util"].get_task_from_file(v) in o["tasks"]]
    if not visit:
        world.probe("remodel_skipped_backup_does_not_cover")
        return False
    covered = all(v in rec for v in visit)
    model_path = os.path.join(model_dir, "model-%d.json" % o["model"])
    with real_open(model_path, "w") as f:
        json.dump(MODELS[o["model"]], f)
    p1 = world.run_proc("remodel", _remodel_fn(world, o, model_path))
    if not covered:
        # the backup lacks a file the run visits: the run may refuse (there is no backed-up original to start from); if it
        # does run, it is judged like any other - twice equals once
        if p1.state != "done":
            world.probe("remodel_refused_backup_does_not_cover")
            return False
        world.probe("remodel_ran_although_backup_does_not_cover")
    if p1.state != "done":
        if world.crashed_names:
            return False
        world.viol("remodel-idempotent", "run_remodel failed on backed-up files: %s: %s"
                   % (type(p1.exc).__name__, str(p1.exc)[:300]), "remodel-raised-%s" % type(p1.exc).__name__)
        return False
    once = {v: world.data_state().get(v) for v in visit}
    # the result must be computed from the backed-up originals, not from the current data files
    if o["twice"] == "no":
        return True
    if o["twice"] == "modify-between":
        world.probe("remodel_modified_between")
        _do_user_edit(world, {"op": "modify", "path": visit[0], "how": "append"})
        if len(visit) > 1:
            _do_user_edit(world, {"op": "modify", "path": visit[-1], "how": "delete"})
    p2 = world.run_proc("remodel", _remodel_fn(world, o, model_path))
    if p2.state != "done":
        world.viol("remodel-idempotent", "second run_remodel failed: %s: %s" % (type(p2.exc).__name__, str(p2.exc)[:300]),
                   "second-remodel-raised-%s" % type(p2.exc).__name__)
        return True
    world.probe("remodel_twice_checked")
    twice = {v: world.data_state().get(v) for v in visit}
    for v in visit:
        if once[v] != twice[v]:
            world.viol("remodel-idempotent", "running the remodeler twice (%s) changed %s: %s bytes after one run, %s after two"
                       % (o["twice"], v, None if once[v] is None else len(once[v]), None if twice[v] is None else len(twice[v])),
                       "twice-differs-from-once")
            break
    return True


def _do_killed(world, o, oi, model_dir):
    """A restore or remodel run that is killed at a seeded step (optionally with a torn pending write).  The run itself
    is not judged; the backups must be exactly what they were (checked by _check_isolation after every operation), a
    fresh manager must still come up, and every later restore / remodel in the history is judged as usual."""
    name = o["name"]
    if name not in world.model or not world.model[name]:
        return False
    k = o["kill"]
    fault = {"kind": "kill", "step": k["step"], "torn": k.get("torn")}
    if o["op"] == "restore":
        p = world.run_proc("restore-killed", _restore_fn(world, o), [fault])
    else:
        model_path = os.path.join(model_dir, "model-%d.json" % o["model"])
        with real_open(model_path, "w") as f:
            json.dump(MODELS[o["model"]], f)
        p = world.run_proc("remodel-killed", _remodel_fn(world, o, model_path), [fault])
    if p.state != "killed":
        world.probe("history_kill_after_last_step")
        return False
    world.probe("history_%s_killed" % o["op"])
    man, exc = world.fresh_manager()
    if man is None and not world.crashed_names:
        world.viol("backup-isolation", "after a %s run was killed at step %d a fresh BackupManager raises %s: %s"
                   % (o["op"], k["step"], type(exc).__name__, str(exc)[:200]), "manager-raises-after-killed-%s" % o["op"])
    return True


def _do_dispatch(world, o, oi):
    """API level: Dispatcher(ops, data_root, backup_name).run_operations(path) reads the backed-up copy, so its result
    does not depend on what happened to the data file after the backup."""
    W = world.W
    name = o["name"]
    rec = world.model.get(name)
    if not rec:
        return False
    targets = sorted(r for r in rec if r.endswith("_events.tsv"))[:2]
    if not targets:
        return False
    from hed.tools.remodeling.dispatcher import Dispatcher
    import pandas as pd
    model = copy.deepcopy(MODELS[o["model"]])
    out = {}

    other = [n for n in sorted(world.model) if n != name and world.model[n] and all(t in world.model[n] for t in targets)]
    want_other = {}
    if other:
        try:
            for t in targets:
                df = pd.read_csv(io.BytesIO(world.model[other[0]][t]), sep="\t", header=0, keep_default_na=False, na_values=",null")
                want_other[t] = Dispatcher(copy.deepcopy(model), data_root=None, backup_name=None).run_operations(df).to_csv(sep="\t", index=False)
        except Exception:  # noqa - the model does not fit what that backup holds (a rewritten file): leave it out
            other = []

    if other:
        world.probe("two_backups_used_in_one_process")

    def fn():
        res = {}
        if other:
            # the same script first works from another backup of the same tree
            d0 = Dispatcher(copy.deepcopy(model), data_root=world.root, backup_name=other[0])
            res["other"] = {t: d0.run_operations(os.path.join(world.root, t)).to_csv(sep="\t", index=False) for t in targets}
        d = Dispatcher(model, data_root=world.root, backup_name=name)
        res.update({t: d.run_operations(os.path.join(world.root, t)).to_csv(sep="\t", index=False) for t in targets})
        return res
    # expected: the same operations applied to the backed-up bytes
    want = {}
    for t in targets:
        df = pd.read_csv(io.BytesIO(rec[t]), sep="\t", header=0, keep_default_na=False, na_values=",null")
        want[t] = Dispatcher(copy.deepcopy(model), data_root=None, backup_name=None).run_operations(df).to_csv(sep="\t", index=False)
    for t in targets:
        _do_user_edit(world, {"op": "modify", "path": t, "how": "append"})
    p = world.run_proc("dispatch", fn)
    if p.state != "done":
        if world.crashed_names:
            return False
        world.viol("remodel-idempotent", "Dispatcher.run_operations on a backed-up file raised %s: %s"
                   % (type(p.exc).__name__, str(p.exc)[:200]), "dispatch-raised-%s" % type(p.exc).__name__)
        return True
    world.probe("dispatch_reads_backup_checked")
    if other:
        for t in targets:
            if p.result["other"][t] != want_other[t]:
                world.viol("remodel-idempotent", "Dispatcher(backup %r).run_operations(%s) differs from the operations applied to that "
                           "backup's copy" % (other[0], t), "dispatcher-does-not-start-from-backup")
                return True
    for t in targets:
        if p.result[t] != want[t]:
            world.viol("remodel-idempotent", "Dispatcher.run_operations(%s) after the data file was modified gives a result that "
                       "differs from the operations applied to the backed-up original (%d vs %d characters)"
                       % (t, len(p.result[t]), len(want[t])), "dispatcher-does-not-start-from-backup")
            break
    del out
    return True


def _check_isolation(world, oi, o):
    """Backup isolation: after a backup call returned, its directory never changes under any later operation."""
    for name, rec in world.model.items():
        st = world.backup_dir_state(name)
        if st is None:
            world.viol("backup-isolation", "backup %r disappeared after op %d (%s)" % (name, oi, o["op"]), "backup-dir-vanished")
            continue
        world.probe("isolation_checked")
        for rel, data in rec.items():
            got = st.get("backup_root/" + rel)
            if got != data:
                world.viol("backup-isolation", "file %s inside backup %r changed after op %d (%s): %s bytes, backed up %d"
                           % (rel, name, oi, o["op"], None if got is None else len(got), len(data)),
                           "backup-content-changed-by-%s" % o["op"])
                return


_MUT = {"write", "mkdir", "chmod", "utime", "replace", "rename", "remove", "unlink", "rmdir", "truncate", "ftruncate",
        "link", "symlink"}


def _mutating(t):
    if t is None:
        return False
    if t[0] == "open":
        return any(ch in str(t[2]) for ch in "wax+")
    return t[0] in _MUT


def _crash_sweep(world, o):
    """Enumerate every file-system step of this backup operation as a crash point."""
    W = world.W
    root, snap = world.real_root, world.snap
    name = o["name"]
    shutil.rmtree(snap, ignore_errors=True)
    shutil.copytree(root, snap, symlinks=True)
    before = world.data_state()
    pre_model = dict(world.model)

    def reset():
        shutil.rmtree(root)
        shutil.copytree(snap, root, symlinks=True)

    if isinstance(o["crash"], list):
        points = [tuple(x) for x in o["crash"]]
    else:
        # dry run: count the steps and remember the pending operation of each
        p = world.run_proc("backup-dry", _backup_fn(world, o))
        trace = p.trace           # trace[c] = operation pending at the c-th resume
        reset()
        # A kill before a step without effect (stat, listdir, open for reading) leaves the same disk state as a kill
        # before the next mutating step, so the distinct crash states are exactly: before each mutating step, and
        # after the last one.  Long copies: every non-write step, and per file the first two, the last and three
        # seeded middle chunk writes.
        mut = [c for c in range(1, len(trace)) if _mutating(trace[c])]
        per_file = {}
        for c in mut:
            if trace[c][0] == "write":
                per_file.setdefault(trace[c][1], []).append(c)
        keep = set(c for c in mut if trace[c][0] != "write")
        g = Gen(world.sc["sched_seed"])
        for path, cs in sorted(per_file.items()):
            if len(cs) <= 6:
                keep.update(cs)
            else:
                keep.update(cs[:2] + cs[-1:] + g.sample(cs[2:-1], 3))
                world.probe("crash_points_sampled_in_long_copy")
        steps = [0] + sorted(keep) + [len(trace)]
        points = []
        for c in steps:
            for kind in o.get("crash_kinds", ["kill", "torn"]):
                if kind != "kill" and (c == 0 or c >= len(trace)):
                    continue
                if kind == "torn" and trace[c][0] != "write":
                    continue
                points.append((c, kind))
    hit_any = False
    for (c, kind) in points:
        if kind == "kill":
            faults = [{"kind": "kill", "step": c, "torn": None}]
        elif kind == "torn":
            faults = [{"kind": "kill", "step": c, "torn": 0.5}]
        elif kind == "eio-retry":
            if o["via"] != "api":
                continue
            faults = [{"kind": "ioerr", "step": c, "errno": 28}]
        elif kind == "eio":
            faults = [{"kind": "ioerr", "step": c, "errno": 5}]
        else:
            faults = [{"kind": "ioerr", "step": c, "errno": 28}]
        n_torn0 = world.fs.counts.get("torn_prefix_delivered", 0)
        n_io0 = world.fs.counts.get("io_error_raised", 0)
        p = world.run_proc("backup-crash", _backup_retry_fn(world, o, before) if kind == "eio-retry" else _backup_fn(world, o), faults)
        interrupted = p.state in ("killed", "failed")
        if kind == "eio-retry":
            if world.fs.counts.get("io_error_raised", 0) == n_io0:
                reset()
                continue
            world.probe("io_error_injected")
            world.probe("same_manager_retry_after_io_error")
            if p.state == "done" and p.result[0] == "retried":
                bad = p.result[1]
                if bad:
                    world.viol("crash-consistency", "create_backup hit an I/O error at step %d, was called again on the SAME BackupManager "
                               "and returned %r; that manager now lists backup %r with damaged recorded files: %s"
                               % (c, p.result[2], name, bad[:3]), "same-manager-lists-damaged-backup-after-retry")
                interrupted = True
        if kind == "torn" and world.fs.counts.get("torn_prefix_delivered", 0) == n_torn0 and isinstance(o["crash"], str):
            reset()
            continue      # the pending step was not a write: identical to the plain kill at this step
        if kind in ("eio", "enospc"):
            if world.fs.counts.get("io_error_raised", 0) == n_io0:
                reset()
                continue
            world.probe("io_error_injected")
        world.probe("crash_points_enumerated")
        if interrupted:
            hit_any = True
            last = [h for h in world.sim.history if h[1] == p.pid]
            pend = None
            for h in reversed(last):
                if h[3] == "KILL":
                    pend = (h[5] or {}).get("pending")
                    break
            if pend:
                if pend[0] == "write" and pend[1] and pend[1].endswith("backup_lock.json"):
                    world.probe("crash_inside_record_write")
                elif pend[0] == "write":
                    world.probe("crash_inside_copy")
                elif pend[0] == "mkdir" and c <= 8:
                    world.probe("crash_before_first_mkdir")
            if kind == "torn":
                world.probe("crash_torn_write")
        # ---- invariant 7: data files never modified by a backup, crashed or not
        after = world.data_state()
        if after != before:
            changed = sorted(k for k in set(before) | set(after) if before.get(k) != after.get(k))
            world.viol("backup-leaves-data", "a backup interrupted at step %d (%s) changed data files %s" % (c, kind, changed[:4]),
                       "data-modified-by-interrupted-backup")
        # ---- invariant 6: never listed half-valid
        if name in pre_model:
            expect = {k: v for k, v in pre_model[name].items()}
            st, rec = _listed_complete(world, name, expect, "crash", "existing-")
            if st == "listed" and world.backup_dir_state(name) is not None:
                got = world.backup_dir_state(name)
                for rel, data in pre_model[name].items():
                    if got.get("backup_root/" + rel) != data:
                        world.viol("no-overwrite", "an interrupted second backup %r (step %d, %s) changed the existing backup file %s"
                                   % (name, c, kind, rel), "existing-backup-changed-by-interrupted-backup")
                        break
        else:
            st, rec = _listed_complete(world, name, before, "crash", "")
            if st == "refused":
                world.probe("manager_refused_after_crash")
            elif st == "not-listed":
                world.probe("manager_not_listed_after_crash")
            elif st == "listed":
                world.probe("manager_listed_after_crash")
                if not interrupted and p.state == "done" and p.result is True:
                    pass
        # a pre-existing other backup is still listed intact whenever the manager returns
        if "older" in pre_model and name != "older":
            man, exc = world.fresh_manager()
            if man is not None:
                r = man.get_backup("older")
                got = world.backup_dir_state("older") or {}
                ok = r is not None and all(got.get("backup_root/" + rel) == data for rel, data in pre_model["older"].items())
                if not ok:
                    world.viol("crash-consistency", "pre-existing backup 'older' is no longer listed intact after an interrupted "
                               "backup %r (step %d, %s)" % (name, c, kind), "preexisting-backup-damaged")
                else:
                    world.probe("preexisting_backup_survived")
        if world.violations and isinstance(o["crash"], str):
            for v in world.violations:
                v.setdefault("narrow", {"crash_point": [c, kind]})
        reset()
    world.crashed_names.add(name)
    return hit_any
