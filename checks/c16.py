"""C16 - Each dataset file is validated with its inherited, merged sidecar.

The simulator owns the ENVIRONMENT (DESIGN.md 4/C16): a generated BIDS-style directory tree built in
scratch, whose directory-enumeration order (os.walk -> scandir, undefined by the OS) is sorted and then
permuted by the seeded decider, and the process argv / exit status of the command-line validator.
BidsDataset and hed_validator.main run as simulated processes over the file-system layer.  Oracles:
(1) the sidecar applied to every events file equals the reference merge (40-line model of the BIDS
inheritance rule as the statement gives it); (2) dataset validation equals, as a multiset of
(code, file, row, column, sidecar column, key), the per-file validations; (3) identical under every
enumeration order; (4) the CLI exits non-zero iff that list is non-empty.
"""
import contextlib
import copy
import io
import json
import os
import shutil
import sys
import tempfile

from sim import core
from sim.core import Decider, Gen, Violation
from sim.sched import Sim
from sim.simfs import SimFS, real_open

PROP = "C16"
LEVEL = "exploration"
HASH_VARIANTS = 1
RUNS = {"quick": 640, "thorough": 30000}
WALL_LIMIT = {"quick": 1500, "thorough": 5 * 3600}
PROBES = ["dataset_below_excluded_named_ancestor", "same_column_at_two_levels", "non_nested_entity_sets_in_chain", "decoy_sidecar", "excluded_dir_with_files", "listing_permuted",
          "orders_compared", "cli_exit_checked", "cli_nonzero_expected", "sidecar_at_root", "sidecar_at_sub", "sidecar_at_ses",
          "sidecar_at_leaf", "files_with_issues", "chain_length_3plus", "excluded_dir_below_top_level",
          "entity_value_prefix_of_another"]
RULE = ("Each run generates a tree: dataset_description.json; 1-3 subjects x 0-2 sessions x 1-2 tasks x 1-2 runs of *_events.tsv; "
        "*_events.json sidecars at any subset of {root, sub, ses, leaf directory} with any subset of the entities of the files below "
        "them (at most one applicable sidecar per directory and events file), several defining the same column key with different "
        "content; decoy sidecars (other entity value, other suffix) and excluded directories holding otherwise applicable files; "
        "valid and invalid contents.  The dataset is loaded and validated under the sorted enumeration order and under 1-3 seeded "
        "permutations; the CLI is run once.  Non-trivial: some events file has a chain of >= 2 sidecars.  Distinct = sha-256 of "
        "(scenario, results).")
COMPONENTS = {"real": ["BidsDataset", "BidsFileGroup", "BidsSidecarFile.is_sidecar_for", "BidsTabularFile", "io_util.get_file_list/"
                       "get_dir_dictionary/parse_bids_filename", "Sidecar.load_sidecar_files", "hed.scripts.hed_validator.main",
                       "os.walk over the interposed scandir", "per-file Sidecar/TabularInput validators (trusted here; C07/C12 judge them)"],
              "stub": ["directory enumeration order (sorted, then seeded permutation)", "sys.argv / stdout of the CLI",
                       "schema cache directory pointed at a scratch copy of the bundled 8.3.0"]}
ASSUMPTIONS = ["at most one applicable sidecar per directory and events file (BIDS requirement; the generator enforces it)",
               "the per-file validators are trusted; the order of the dataset issue list is not compared"]

_W = {}


def _init():
    if _W:
        return _W
    import warnings
    warnings.simplefilter("ignore")
    import pandas as pd
    from hed import TabularInput, Sidecar
    from hed.schema import load_schema, hed_cache
    from hed.tools.bids.bids_dataset import BidsDataset
    from hed.scripts import hed_validator
    repo = os.environ.get("VERIF_REPO", "/repo")
    base = tempfile.mkdtemp(prefix="verif-c16-%d-" % os.getpid(), dir="/dev/shm" if os.path.isdir("/dev/shm") else None)
    import atexit
    atexit.register(shutil.rmtree, base, True)
    cache = os.path.join(base, "cache")
    os.makedirs(cache)
    shutil.copy(os.path.join(repo, "hed/schema/schema_data/HED8.3.0.xml"), os.path.join(cache, "HED8.3.0.xml"))
    hed_cache.HED_CACHE_DIRECTORY = cache           # never ~/.hedtools
    schema = load_schema(os.path.join(cache, "HED8.3.0.xml"))
    _W.update(pd=pd, TabularInput=TabularInput, Sidecar=Sidecar, schema=schema, BidsDataset=BidsDataset, cli=hed_validator,
              base=base)
    return _W


PLAIN = ["Red", "Blue", "Green", "Square", "Circle", "Triangle", "Cross", "Face", "Yellow", "Black", "White", "Star"]
TASKS = ["go", "rest", "gonogo"]


def _ann(g, bad=False):
    parts = g.sample(PLAIN, g.randint(1, 3))
    if bad:
        parts.append(g.pick(["Grren", "Redd", "Label/#"]))
    return ", ".join(parts)


def _sidecar_content(g, level):
    cols = {}
    for c in g.subset(["trial_type", "response", "stim"], 1, 3):
        if c == "response":
            cols[c] = {"Description": "lvl %s" % level, "HED": g.pick(["Label/#", "ID/#", "(Age/#, %s)" % g.pick(PLAIN)])}
        else:
            keys = g.pick([["a", "b"], ["a", "b"], ["a", "c"], ["b"], ["a", "b", "c"]])
            cols[c] = {"Description": "lvl %s" % level, "HED": {k: _ann(g, g.chance(0.1)) for k in keys}}
    if g.chance(0.25):
        # a column of definitions, named after the level: the same definition name at two levels of one chain is a
        # duplicate only in the merged sidecar
        cols["defs_%s" % level] = {"Description": "definitions", "HED": {"d": "(Definition/%s, (%s))" % (g.pick(["DefA", "DefA", "DefB"]), g.pick(PLAIN))}}
    return cols


def generate(run_index, seed, tier):
    g = Gen(seed)
    files = []       # events files: {"path", "ents": {...}, "rows"}
    n_sub = g.randint(1, 3)
    use_ses = g.pick([0, 0, 1, 2])
    tasks = g.subset(TASKS, 1, 2)
    n_runs = g.pick([1, 1, 2])
    run_names = g.pick([["1", "2"], ["1", "10"], ["1", "10"]])
    for s in range(1, n_sub + 1):
        for ses in (range(1, use_ses + 1) if use_ses else [None]):
            for task in tasks:
                for run in range(1, n_runs + 1):
                    ents = [("sub", "%02d" % s)]
                    d = ["sub-%02d" % s]
                    if ses:
                        ents.append(("ses", str(ses)))
                        d.append("ses-%d" % ses)
                    d.append("eeg")
                    ents.append(("task", task))
                    if n_runs > 1:
                        ents.append(("run", run_names[run - 1]))
                    name = "_".join("%s-%s" % e for e in ents) + "_events.tsv"
                    rows = []
                    t = 0.0
                    for _ in range(g.randint(1, 3)):
                        t += g.pick([0.5, 1.0])
                        rows.append(["%g" % t, "0.5", g.pick(["a", "b", "a", "c", "n/a", "zzz"]), g.pick(["abc", "7", "n/a"]), g.pick(["a", "b", "n/a"]),
                                     g.pick(["n/a", "n/a", _ann(g, g.chance(0.1))])])
                    files.append({"path": "/".join(d + [name]), "ents": dict(ents), "rows": rows})
    if len(files) > 10:
        files = g.sample(files, 10)
    # sidecars: per directory level choose exclusive entity shapes
    sidecars = []
    dirs = {}
    for f in files:
        parts = f["path"].split("/")[:-1]
        for depth in range(0, len(parts) + 1):
            dirs.setdefault("/".join(parts[:depth]), []).append(f)
    for d, below in sorted(dirs.items()):
        if not g.chance(0.45 if d else 0.7):
            continue
        depth = len(d.split("/")) if d else 0
        # entity keys available at this level: those shared by all files below through the directory (sub, ses) plus free ones
        fixed = {}
        if depth >= 1:
            fixed["sub"] = below[0]["ents"]["sub"]
        if depth >= 2 and "ses" in below[0]["ents"] and d.split("/")[1].startswith("ses-"):
            fixed["ses"] = below[0]["ents"]["ses"]
        shape = g.pick(["general", "by-task", "by-task", "full"] if depth >= 3 or not below[0]["ents"].get("ses") or depth >= 2
                       else ["general", "by-task"])
        level = {0: "root", 1: "sub", 2: "ses" if "ses" in fixed else "leaf"}.get(depth, "leaf")
        use_fixed = {k: v for k, v in fixed.items() if g.chance(0.6)}
        if shape == "general":
            ent_sets = [dict(use_fixed)]
        elif shape == "by-task":
            ent_sets = []
            for task in sorted({f["ents"]["task"] for f in below}):
                if g.chance(0.8):
                    e = dict(use_fixed)
                    e["task"] = task
                    ent_sets.append(e)
        else:
            f0 = g.pick(below)
            ent_sets = [dict(f0["ents"])] if level == "leaf" else [dict(use_fixed)]
        for e in ent_sets:
            order = [k for k in ("sub", "ses", "task", "run") if k in e]
            name = "_".join("%s-%s" % (k, e[k]) for k in order)
            name = (name + "_" if name else "") + "events.json"
            sidecars.append({"path": (d + "/" if d else "") + name, "ents": e, "level": level, "content": _sidecar_content(g, level)})
    if g.chance(0.35):
        # per-subject copies: sidecars of the same level get the very same content (each is still a file of its own)
        by_level = {}
        for sdc in sidecars:
            by_level.setdefault(sdc["level"], []).append(sdc)
        for lv, group in sorted(by_level.items()):
            if lv != "root" and len(group) >= 2:
                for sdc in group[1:]:
                    sdc["content"] = copy.deepcopy(group[0]["content"])
    # decoys
    decoys = []
    if g.chance(0.5) and not any(s["path"] == "events.json" for s in sidecars):
        # (next to a general root sidecar this would put two applicable sidecars into one directory, which BIDS forbids)
        decoys.append({"path": "task-zzz_events.json", "content": {"trial_type": {"HED": {"a": "Grren"}}}})
    if g.chance(0.4):
        decoys.append({"path": "task-go_beh.json", "content": {"trial_type": {"HED": {"a": "Redd"}}}})
    if g.chance(0.4) and files:
        f0 = files[0]
        decoys.append({"path": "derivatives/pipe/" + f0["path"], "rows": [["1", "0.5", "a", "x", "a", "Grren"]]})
        decoys.append({"path": "derivatives/pipe/events.json", "content": {"trial_type": {"HED": {"a": "Redd"}}}})
    if g.chance(0.3):
        decoys.append({"path": "code/events.json", "content": {"stim": {"HED": {"a": "Grren"}}}})
    if g.chance(0.3) and files:
        # another suffix that merely ENDS with 'events' is not the events suffix
        f0 = g.pick(files)
        decoys.append({"path": f0["path"].replace("_events.tsv", "_physioevents.tsv"), "rows": [["1", "0.5", "a", "x", "a", "Grren"]]})
        if g.chance(0.5):
            decoys.append({"path": os.path.dirname(f0["path"]) + "/" + os.path.basename(f0["path"]).replace("_events.tsv", "_xevents.json"),
                           "content": {"trial_type": {"HED": {"a": "Redd"}}}})
    if g.chance(0.4) and files:
        # excluded directory names below the top level take no part either
        f0 = g.pick(files)
        parts = f0["path"].split("/")
        depth = g.randrange(1, len(parts))
        ex = g.pick(["derivatives", "code", "stimuli", "sourcedata"])
        base = "/".join(parts[:depth] + [ex])
        decoys.append({"path": base + "/" + parts[-1], "rows": [["1", "0.5", "a", "x", "a", "Grren"]]})
        decoys.append({"path": base + "/events.json", "content": {"trial_type": {"HED": {"a": "Redd"}}}})
    if g.chance(0.3) and files:
        # a sidecar in a sibling directory must not apply
        other = "sub-99/sub-99_events.json" if not any(f["path"].startswith("sub-99") for f in files) else None
        if other:
            decoys.append({"path": other, "content": {"trial_type": {"HED": {"a": "Redd", "b": "Redd"}}}})
    seen = set()
    sidecars = [s for s in sidecars if not (s["path"] in seen or seen.add(s["path"]))]
    cli_opts = []
    if g.chance(0.3):
        cli_opts += ["-o", "<scratch>/cli-output.txt"]
    if g.chance(0.3):
        cli_opts += ["-f", g.pick(["json", "json_pp", "text"])]
    if files and n_runs > 1 and g.chance(0.3):
        # a sidecar whose run index is spelled with other zero padding than the events file names: not the same value
        f0 = g.pick([f for f in files if "_run-" in f["path"]])
        base = os.path.basename(f0["path"]).replace("_events.tsv", "_events.json")
        import re as _re
        m = _re.search(r"_run-(\d+)", base)
        other = ("0" + m.group(1)) if not m.group(1).startswith("0") else m.group(1).lstrip("0")
        dir0 = os.path.dirname(f0["path"])
        # (only where no other JSON lives in that directory: two sidecars of one directory that both apply to the decoy
        # itself are outside the BIDS precondition)
        if other and other != m.group(1) and not any(os.path.dirname(x["path"]) == dir0 for x in sidecars + decoys
                                                     if x["path"].endswith(".json")):
            decoys.append({"path": os.path.dirname(f0["path"]) + "/" + base.replace("_run-" + m.group(1), "_run-" + other),
                           "content": {"trial_type": {"HED": {"a": "Redd", "b": "Grren"}}}})
    return {"files": files, "sidecars": sidecars, "decoys": decoys, "perms": [g.randrange(1 << 30) for _ in range(g.randint(1, 3))],
            "warnings": g.chance(0.5), "cli_opts": cli_opts,
            # where the dataset lives: directly in scratch, or below directories named like the excluded ones
            "root_under": g.pick(["", "", "derivatives/pipeline", "code/sourcedata"]),
            # the caller configures an empty exclusion list: directories named like the default excluded ones take part
            "exclude_empty": g.chance(0.12),
            "edit_then_again": g.randrange(1, 1 << 30) if g.chance(0.25) else 0}


def shrink(sc):
    for key in ("files", "sidecars", "decoys", "perms"):
        for i in range(len(sc[key])):
            if key == "files" and len(sc[key]) <= 1:
                continue
            c = copy.deepcopy(sc)
            del c[key][i]
            yield c
    for i, s in enumerate(sc["sidecars"]):
        for col in list(s["content"]):
            if len(s["content"]) > 1:
                c = copy.deepcopy(sc)
                del c["sidecars"][i]["content"][col]
                yield c
    for i, f in enumerate(sc["files"]):
        for j in range(len(f["rows"])):
            if len(f["rows"]) > 1:
                c = copy.deepcopy(sc)
                del c["files"][i]["rows"][j]
                yield c


# ------------------------------------------------------------------------------------------- reference model
EXCLUDED = {"sourcedata", "derivatives", "code", "stimuli", "phenotype"}


def _entities(path):
    base = os.path.basename(path)
    stem = base[:base.rindex(".")]
    pieces = stem.split("_")
    suffix = pieces[-1]
    ents = {}
    for p in pieces[:-1]:
        k, _, v = p.partition("-")
        ents[k] = v
    return suffix, ents


def reference_chain(target_path, all_json_paths):
    """Sidecars applying to target (an events .tsv or an events .json): same suffix, in a directory on the path from
    the root to the target, all filename entities present with the same values in the target's name; root first."""
    tsuffix, tents = _entities(target_path)
    tdir = os.path.dirname(target_path)
    out = []
    for p in all_json_paths:
        if any(part in EXCLUDED for part in p.split("/")[:-1]):
            continue
        suffix, ents = _entities(p)
        if suffix != tsuffix:
            continue
        d = os.path.dirname(p)
        if not (d == "" or tdir == d or tdir.startswith(d + "/")):
            continue
        if p != target_path and not all(tents.get(k) == v for k, v in ents.items()):
            continue
        if p != target_path and p.endswith(".json") and target_path.endswith(".json") and d == tdir:
            continue     # a different sidecar in the same directory is not a parent of this sidecar
        out.append(p)
    out.sort(key=lambda p: (len(os.path.dirname(p).split("/")) if os.path.dirname(p) else 0, p != target_path))
    return out


def _loc(i):
    return (i.get("code"), os.path.basename(str(i.get("ec_filename"))), i.get("ec_row"), str(i.get("ec_column")),
            i.get("ec_sidecarColumnName"), i.get("ec_sidecarKeyName"))


# ------------------------------------------------------------------------------------------- execution
COLS = ["onset", "duration", "trial_type", "response", "stim", "HED"]


def _build_tree(root, sc):
    shutil.rmtree(root, ignore_errors=True)
    os.makedirs(root)
    with real_open(os.path.join(root, "dataset_description.json"), "w") as f:
        json.dump({"Name": "generated", "BIDSVersion": "1.8.0", "HEDVersion": "8.3.0"}, f)

    def put(rel, text):
        p = os.path.join(root, rel)
        os.makedirs(os.path.dirname(p), exist_ok=True)
        with real_open(p, "w") as f:
            f.write(text)
    for fobj in sc["files"]:
        put(fobj["path"], "\t".join(COLS) + "\n" + "".join("\t".join(r) + "\n" for r in fobj["rows"]))
    for s in sc["sidecars"]:
        put(s["path"], json.dumps(s["content"]))
    for d in sc["decoys"]:
        if "content" in d:
            put(d["path"], json.dumps(d["content"]))
        else:
            put(d["path"], "\t".join(COLS) + "\n" + "".join("\t".join(r) + "\n" for r in d["rows"]))


def execute(sc, script=None):
    r = _execute_once(sc, script)
    if sc.get("edit_then_again") and not r["violations"] and sc["sidecars"]:
        # the user edits one sidecar in place and validates again in the same process (new objects, same paths)
        sc2 = copy.deepcopy(sc)
        g = Gen(sc["edit_then_again"])
        target = g.pick(sc2["sidecars"])
        target["content"] = {"trial_type": {"Description": "edited", "HED": {"a": g.pick(["Grren", "Blue", "(Red, Blue", "Square"]),
                                                                           "b": g.pick(["Circle", "Redd"])}}}
        r2 = _execute_once(sc2, script)
        r2["probes"]["edited_in_place_and_validated_again"] = 1
        for k, v in r["probes"].items():
            r2["probes"][k] = r2["probes"].get(k, 0) + v
        r2["digest"] = core.digest([r["digest"], r2["digest"]])
        r2["steps"] = r.get("steps", 0) + r2.get("steps", 0)
        return r2
    return r


def _execute_once(sc, script=None):
    global EXCLUDED
    if not sc.get("exclude_empty"):
        return _execute(sc, script)
    saved = EXCLUDED
    sc = copy.deepcopy(sc)
    keep = []
    for d in sc["decoys"]:
        if set(d["path"].split("/")[:-1]) & saved:
            if "rows" in d and d["path"].endswith("_events.tsv"):
                sc["files"].append({"path": d["path"], "ents": _entities(d["path"])[1], "rows": d["rows"]})
            elif "content" in d and d["path"].endswith("events.json"):
                sc["sidecars"].append({"path": d["path"], "ents": _entities(d["path"])[1], "level": "leaf", "content": d["content"]})
            else:
                keep.append(d)
        else:
            keep.append(d)
    sc["decoys"] = keep
    EXCLUDED = set()
    try:
        return _execute(sc, script)
    finally:
        EXCLUDED = saved


def _execute(sc, script=None):
    W = _init()
    violations, probes, trace = [], {}, []

    def probe(k, n=1):
        probes[k] = probes.get(k, 0) + n

    def viol(clause, detail, sig):
        violations.append(Violation(clause, detail.replace(W["base"], "<scratch>"), sig).record(PROP))

    shutil.rmtree(os.path.join(W["base"], "up"), ignore_errors=True)
    root = os.path.join(W["base"], "up", sc["root_under"], "ds") if sc.get("root_under") else os.path.join(W["base"], "ds")
    if sc.get("root_under"):
        probe("dataset_below_excluded_named_ancestor")
    _build_tree(root, sc)
    json_paths = [s["path"] for s in sc["sidecars"]] + [d["path"] for d in sc["decoys"] if d["path"].endswith(".json")]
    contents = {s["path"]: s["content"] for s in sc["sidecars"]}
    contents.update({d["path"]: d["content"] for d in sc["decoys"] if "content" in d})
    # ---- reference merges and probes
    ref_merge = {}
    nontrivial = False
    for f in sc["files"]:
        chain = reference_chain(f["path"], json_paths)
        merged = {}
        for p in chain:
            merged.update(copy.deepcopy(contents[p]))
        ref_merge[f["path"]] = (chain, merged)
        if len(chain) >= 2:
            nontrivial = True
            cols = [set(contents[p]) for p in chain]
            if any(a & b for i, a in enumerate(cols) for b in cols[i + 1:]):
                probe("same_column_at_two_levels")
            ents = [set(_entities(p)[1].items()) for p in chain]
            if any(not (a <= b) for a, b in zip(ents, ents[1:])):
                probe("non_nested_entity_sets_in_chain")
        if len(chain) >= 3:
            probe("chain_length_3plus")
    for s in sc["sidecars"]:
        probe("sidecar_at_" + s["level"])
    if sc["decoys"]:
        probe("decoy_sidecar")
    if any(d["path"].split("/")[0] in EXCLUDED for d in sc["decoys"]):
        probe("excluded_dir_with_files")
    if any(set(d["path"].split("/")[1:-1]) & EXCLUDED for d in sc["decoys"]):
        probe("excluded_dir_below_top_level")
    names = [f["path"] for f in sc["files"]]
    if any("task-gonogo" in n for n in names) and any("task-go_" in n for n in names + json_paths):
        probe("entity_value_prefix_of_another")
    # ---- reference issue multiset from the per-file validators (different entry point, trusted here)
    warn = sc["warnings"]
    from hed.errors import ErrorHandler

    def reference_issues(check_for_warnings):
        out = []
        # every same-suffix JSON file outside the excluded directories is a sidecar of the dataset (decoys with another
        # entity value included); files in excluded directories and other suffixes take no part
        for sp in sorted(json_paths):
            if _entities(sp)[0] != "events" or any(part in EXCLUDED for part in sp.split("/")[:-1]):
                continue
            chain = reference_chain(sp, json_paths)
            sc_obj = W["Sidecar"]([os.path.join(root, p) for p in chain], name=os.path.basename(sp))
            out += sc_obj.validate(W["schema"], name=os.path.basename(sp), error_handler=ErrorHandler(check_for_warnings))
        for f in sc["files"]:
            chain, _ = ref_merge[f["path"]]
            sc_obj = W["Sidecar"]([os.path.join(root, p) for p in chain]) if chain else None
            tab = W["TabularInput"](os.path.join(root, f["path"]), sidecar=sc_obj, name=os.path.basename(f["path"]))
            out += tab.validate(W["schema"], name=os.path.basename(f["path"]), error_handler=ErrorHandler(check_for_warnings))
        return sorted(str(_loc(i)) for i in out)
    want = {True: None, False: None}

    def want_for(cw):
        if want[cw] is None:
            want[cw] = reference_issues(cw)
        return want[cw]

    # ---- run the dataset under the sorted order and under seeded permutations
    first = None
    for oi, ps in enumerate([None] + list(sc["perms"])):
        if violations:
            break
        sim = Sim(Decider(ps if ps is not None else 0), max_steps=200000)
        fs = SimFS(sim, [root], chunk=1 << 20, copy_bufsize=1 << 20, permute_listing=ps is not None, yield_stat=False)
        out = {}

        def fn():
            ds = W["BidsDataset"](root, schema=W["schema"], exclude_dirs=[]) if sc.get("exclude_empty") \
                else W["BidsDataset"](root, schema=W["schema"])
            grp = ds.get_tabular_group("events")
            applied = {}
            for p, obj in grp.datafile_dict.items():
                rel = os.path.relpath(p, os.path.realpath(root))
                applied[rel] = copy.deepcopy(obj.sidecar.contents.loaded_dict) if obj.sidecar is not None else None
            out["applied"] = applied
            out["issues"] = ds.validate(check_for_warnings=warn)
            out["issues_again"] = ds.validate(check_for_warnings=warn)      # the same object is asked a second time
            out["issues_other_flag"] = ds.validate(check_for_warnings=not warn)  # and once more with the other setting
            return True
        with fs:
            p = sim.run_one("bids", fn)
        if fs.counts.get("listing_permuted"):
            probe("listing_permuted", fs.counts["listing_permuted"])
        if p.state != "done":
            viol("no-exception", "BidsDataset load/validate raised %s: %s (order %s)" % (type(p.exc).__name__, str(p.exc)[:300],
                 "sorted" if ps is None else "permuted"), "dataset-raises-%s" % type(p.exc).__name__)
            break
        applied, issues = out["applied"], out["issues"]
        got = sorted(str(_loc(i)) for i in issues)
        again = sorted(str(_loc(i)) for i in out["issues_again"])
        with_w, only_e = (issues, out["issues_other_flag"]) if warn else (out["issues_other_flag"], issues)
        sub = sorted(str(_loc(i)) for i in with_w if i.get("severity", 1) == 1)
        if sorted(str(_loc(i)) for i in only_e) != sub:
            viol("dataset-issues", "the same BidsDataset asked with warnings off returns %d issues, the error-severity subset of the "
                 "answer with warnings on has %d" % (len(only_e), len(sub)), "errors-only-differs-dataset")
            break
        if again != got:
            viol("dataset-issues", "a second validate() on the same BidsDataset gives other issues: only first %s, only second %s"
                 % ([x for x in got if x not in again][:5], [x for x in again if x not in got][:5]), "second-validate-differs")
            break
        trace.append([oi, sorted(applied), got])
        # (1) applied sidecar = reference merge
        if sorted(applied) != sorted(f["path"] for f in sc["files"]):
            viol("file-discovery", "dataset holds events files %s, the tree has %s (excluded directories take no part)"
                 % (sorted(applied), sorted(f["path"] for f in sc["files"])), "events-files-differ")
            break
        for f in sc["files"]:
            chain, merged = ref_merge[f["path"]]
            a = applied[f["path"]]
            if (a or {}) != merged:
                diff = sorted(k for k in set(a or {}) | set(merged) if (a or {}).get(k) != merged.get(k))
                ents = [set(_entities(q)[1].items()) for q in chain]
                nested = all(x <= y for x, y in zip(ents, ents[1:]))
                viol("merged-sidecar", "%s: the applied sidecar differs from the top-down merge of %s in columns %s\napplied %s\nexpected %s"
                     % (f["path"], chain, diff, json.dumps(a, sort_keys=True)[:400], json.dumps(merged, sort_keys=True)[:400]),
                     "merge-differs-%s" % ("nested-chain" if nested else "chain-through-non-nested-entity-sets"))
                break
        if violations:
            break
        # (2) dataset issues = per-file issues
        w = want_for(warn)
        if got != w:
            only_g = [x for x in got if x not in w]
            only_w = [x for x in w if x not in got]
            viol("dataset-issues", "dataset validation differs from validating each merged sidecar and each events file with its merged "
                 "sidecar.\nonly dataset: %s\nonly per-file: %s" % (only_g[:5], only_w[:5]), "dataset-issues-differ")
            break
        if w:
            probe("files_with_issues")
        # (3) identical under every enumeration order
        if first is None:
            first = (applied, got)
        else:
            probe("orders_compared")
            if (applied, got) != first:
                viol("order-independence", "results differ between the sorted enumeration order and permutation %d" % oi, "order-dependent")
                break
    if sc.get("exclude_empty"):
        probe("empty_exclusion_list")
    # ---- (4) CLI exit status (the command line has no option for the exclusion list: default list only)
    if not violations and not sc.get("exclude_empty"):
        sim = Sim(Decider(0), max_steps=200000)
        fs = SimFS(sim, [root], chunk=1 << 20, copy_bufsize=1 << 20, yield_stat=False)
        argv = ["hed_validator", root] + (["--check-for-warnings"] if warn else []) + list(sc.get("cli_opts", []))
        argv = [a.replace("<scratch>", W["base"]) for a in argv]

        def cli():
            saved = sys.argv
            sys.argv = argv
            try:
                with contextlib.redirect_stdout(io.StringIO()):
                    return W["cli"].main()
            finally:
                sys.argv = saved
        with fs:
            p = sim.run_one("cli", cli)
        probe("cli_exit_checked")
        expected_nonzero = bool(want_for(warn))
        if expected_nonzero:
            probe("cli_nonzero_expected")
        if p.state != "done":
            # an escaping exception ends the real process with a non-zero status
            probe("cli_raised_" + type(p.exc).__name__)
            if not expected_nonzero:
                viol("cli-exit-status", "hed_validator.main %s raised %s: %s although the dataset has no issues"
                     % (argv[2:], type(p.exc).__name__, str(p.exc)[:300]), "cli-raises-%s-without-issues" % type(p.exc).__name__)
        elif bool(p.result) != expected_nonzero:
            viol("cli-exit-status", "hed_validator.main %s returned %r but the dataset has %d issue(s)" % (argv[2:], p.result, len(want_for(warn))),
                 "cli-exit-%s-with-%s" % ("zero" if not p.result else "nonzero", "issues" if expected_nonzero else "no-issues"))
        trace.append(["cli", p.result if p.state == "done" else p.state])
    return _result(sc, violations, probes, trace, nontrivial)


def _result(sc, violations, probes, trace, nontrivial):
    seen, uniq = set(), []
    for v in violations:
        if v["signature"] not in seen:
            seen.add(v["signature"])
            uniq.append(v)
    faults = {"listing_permuted": probes.get("listing_permuted", 0)} if probes.get("listing_permuted") else {}
    return {"violations": uniq, "digest": core.digest([sc, trace]), "hdigest": core.digest(sc), "rdigest": core.digest(trace),
            "decisions": [], "nontrivial": nontrivial, "probes": probes, "faults": faults, "steps": len(trace), "sim_s": 0.0,
            "states": [core.digest(t) for t in trace[-2:]], "sched": core.digest(sc["perms"]),
            "summary": {"files": [f["path"] for f in sc["files"]], "sidecars": [s["path"] for s in sc["sidecars"]]}}
