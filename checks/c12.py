"""C12 - Every reported issue is well-formed and points at the offending text.

Simulation axis (DESIGN.md 4/C12): the issue dictionaries and the ErrorHandler context stack are
mutable state with a call history.  On ONE ErrorHandler (warnings on or off) a seeded, shrinkable
sequence of context pushes/pops, direct format_error_with_context calls with seeded sub-tag ranges,
entry-point calls that receive that handler (string, sidecar, table), repeated
add_context_and_filter over the accumulated issue list, then sort / severity filter / reference
replacement + JSON / printable string is executed; well-formedness invariants are evaluated on every
accumulated issue after every step, and each entry-point result is compared with a fresh handler and
with the errors-only run.
"""
import copy
import io
import json
import os

from sim import core
from sim.core import Gen, Violation

PROP = "C12"
LEVEL = "exploration"
HASH_VARIANTS = 1
RUNS = {"quick": 2500, "thorough": 150000}
WALL_LIMIT = {"quick": 1200, "thorough": 5 * 3600}
PROBES = ["decorated_more_than_once", "hed_string_context_pushed_by_caller", "warnings_off_run", "issue_with_offsets", "sort_checked",
          "json_checked", "entry_string", "entry_sidecar", "entry_table", "direct_format_subtag", "handler_shared_across_entry_points",
          "printable_checked", "warning_issue_seen", "row_string_offsets",
          "known_offending_fragment_checked", "redecorated_under_row_string", "namespaced_schema_string"]
RULE = ("Each run generates 2-5 annotation fragments (valid, unknown tag, extension, bad unit, empty element, unbalanced "
        "parenthesis, repeated tag, placeholder, bad character), a sidecar and a small table built from them, and a history of "
        "5-16 operations on one ErrorHandler: context pushes/pops, direct format_error_with_context with seeded sub-tag ranges, "
        "string / sidecar / table validation with that handler (HED_STRING context pushed by the caller or not), 1-3 repeated "
        "add_context_and_filter passes over the accumulated list, then sort_issues, filter_issues_by_severity, "
        "replace_tag_references + json.dumps, get_printable_issue_string.  Non-trivial: an issue with character offsets was "
        "decorated more than once or the handler was shared by two entry points.  Distinct = sha-256 of (scenario, issue keys).")
COMPONENTS = {"real": ["ErrorHandler (all methods)", "hed_tag_error/hed_error wrappers", "sort_issues", "replace_tag_references",
                       "get_printable_issue_string", "HedValidator.validate", "Sidecar.validate", "TabularInput.validate",
                       "HedString._get_org_span"], "stub": []}
ASSUMPTIONS = ["the 'fragment quoted in the message' is checked as: text[char_index:char_index_end] (whitespace-insensitive) occurs "
               "in the message", "the span of the named tag is located by searching the tag's original text in the validated text",
               "locations for the errors-only comparison are (code, row, column, sidecar column, key, char_index)"]

_W = {}


def _init():
    if _W:
        return _W
    import warnings
    warnings.simplefilter("ignore")
    import pandas as pd
    from hed import HedString, TabularInput, Sidecar
    from hed.schema import load_schema
    from hed.validator import HedValidator
    from hed.errors import ErrorHandler, ErrorContext
    from hed.errors import error_reporter
    from hed.errors.error_types import ValidationErrors
    repo = os.environ.get("VERIF_REPO", "/repo")
    schema = load_schema(os.path.join(repo, "hed/schema/schema_data/HED8.3.0.xml"))
    _W["schema_ns"] = load_schema(os.path.join(repo, "hed/schema/schema_data/HED8.3.0.xml"), schema_namespace="ts:")
    from hed.models.definition_dict import DefinitionDict
    _W["dd"] = DefinitionDict(["(Definition/MyDef/#, (Label/#, Red))", "(Definition/Plain, (Blue))"], schema)
    _W.update(pd=pd, HedString=HedString, TabularInput=TabularInput, Sidecar=Sidecar, schema=schema, HedValidator=HedValidator,
              ErrorHandler=ErrorHandler, ErrorContext=ErrorContext, er=error_reporter, VE=ValidationErrors)
    return _W


FRAGS = ["Red", "Blue", "(Green, Square)", "Circle", "Red", "()", "(Blue, ())", "Grren", "Red/Crimson", "Duration/3 cm", "Item/Object/Junk", "Train/Maglev",
         "Train/Maglev/Fast", "Label/#", "Label/a b", "Red/", "Description/bad*chars", "(Onset, Face)", "Age/12", "(Yellow, (Star, Black))",
         "Purple-color/Purple/Deep", "Label/ok-1"]
FRAGS += ["Def/MyDef/a$b", "Def/MyDef/ok", "Def/Plain", "Label/a$b", "Property/Informational-property/Label/a$b", "Informational-property/Label/x$y",
          "Item/Object/Man-made-object/Vehicle/Train/Maglev",
          "Property/Sensory-property/Sensory-attribute/Visual-attribute/Color/CSS-color/Red-color/Red/Crimson"]
# fragments whose offending piece is known by construction: (code, exact text the offsets must select)
FRAGS += ["Label/two  words", "Red  /Bloody", "Duration/3  s"]      # runs of blanks inside a tag
FRAGS += ["Fooo/Bar", "Fooo/Bar/Baz", "/Blue", "Blue/"]              # the offending piece starts at the first character of the tag
EXPECT = {"Fooo/Bar": ("TAG_INVALID", "Fooo"), "Fooo/Bar/Baz": ("TAG_INVALID", "Fooo"), "/Blue": ("TAG_INVALID", "/"), "Blue/": ("TAG_INVALID", "/"),
          "Label/two  words": ("TAG_INVALID", "  "), "Red  /Bloody": ("TAG_INVALID", "  /"), "Duration/3  s": ("TAG_INVALID", "  "),
          "Def/MyDef/a$b": ("CHARACTER_INVALID", "$"), "Label/a$b": ("CHARACTER_INVALID", "$"), "Property/Informational-property/Label/a$b": ("CHARACTER_INVALID", "$"),
          "Informational-property/Label/x$y": ("CHARACTER_INVALID", "$"), "Label/a b": ("CHARACTER_INVALID", " "),
          "Item/Object/Man-made-object/Vehicle/Train/Maglev": ("TAG_EXTENDED", "/Maglev"), "Train/Maglev": ("TAG_EXTENDED", "/Maglev"),
          "Train/Maglev/Fast": ("TAG_EXTENDED", "/Maglev/Fast"), "Item/Object/Junk": ("TAG_EXTENDED", "/Junk"),
          "Property/Sensory-property/Sensory-attribute/Visual-attribute/Color/CSS-color/Red-color/Red/Crimson": ("TAG_EXTENSION_INVALID", "Crimson"),
          "Red/Crimson": ("TAG_EXTENSION_INVALID", "Crimson"), "Grren": ("TAG_INVALID", "Grren"), "Label/#": ("PLACEHOLDER_INVALID", "#"),
          "Purple-color/Purple/Deep": ("TAG_EXTENSION_INVALID", "Deep")}
NS_FRAGS = ["ts:Red", "ts:Event/Fooo/Sensory-event", "ts:Event/Fooo/Bar/Sensory-event", "ts:Train/Maglev", "ts:Label/a$b", "ts:Red/Crimson",
            "ts:Grren", "ts:Item/Object/Junk", "(ts:Green, ts:Square)", "ts:Item/Fooo/Baar/Object"]
EXPECT.update({"ts:Event/Fooo/Sensory-event": ("TAG_EXTENSION_INVALID", "Sensory-event"),
               "ts:Event/Fooo/Bar/Sensory-event": ("TAG_EXTENSION_INVALID", "Sensory-event"), "ts:Train/Maglev": ("TAG_EXTENDED", "/Maglev"),
               "ts:Label/a$b": ("CHARACTER_INVALID", "$"), "ts:Red/Crimson": ("TAG_EXTENSION_INVALID", "Crimson"),
               "ts:Grren": ("TAG_INVALID", "Grren"), "ts:Item/Object/Junk": ("TAG_EXTENDED", "/Junk"),
               "ts:Item/Fooo/Baar/Object": ("TAG_EXTENSION_INVALID", "Object")})
STRUCT = ["dup", "empty", "paren"]


def _gen_string(g):
    parts = [g.pick(FRAGS) for _ in range(g.randint(1, 4))]
    r = g.random()
    if r < 0.1:
        parts.insert(g.randrange(len(parts) + 1), parts[0])           # repeated
    txt = g.pick([", ", ",", " , "]).join(parts)
    if 0.1 <= r < 0.15:
        txt = txt.replace(",", ",,", 1) if "," in txt else txt + ",,"  # empty element
    if 0.15 <= r < 0.2:
        txt = "(" + txt                                                # unbalanced
    return txt


def generate(run_index, seed, tier):
    g = Gen(seed)
    strings = [_gen_string(g) for _ in range(g.randint(2, 5))]
    sidecar = {"tt": {"HED": {"go": g.pick(strings), "stop": _gen_string(g), "Go": _gen_string(g)}},      # keys differing only by case
               "val": {"HED": "Label/#, " + g.pick(["Red", "Red", "Blue", "(Green, Square)", "Grren", "Train/Maglev", "Duration/3 cm"])}}
    if g.chance(0.5):
        # a fourth HED-bearing column, so that rows with three and four non-empty cells occur (span remapping)
        sidecar["zz"] = {"HED": {"a": g.pick(["Circle", "Red", "(Green, Square)", "Train/Maglev"]), "b": _gen_string(g)}}
    if g.chance(0.25):
        # structural / reference faults: the sidecar validator takes its early-return path
        how = g.pick(["reserved-column", "self-ref", "malformed-brace", "nested-hed-key"])
        if how == "reserved-column":
            sidecar["HED"] = {"HED": {"a": "Red"}}
        elif how == "self-ref":
            sidecar["val"]["HED"] = "Label/#, {val}"
        elif how == "malformed-brace":
            sidecar["tt"]["HED"]["go"] = "Red, {val"
        else:
            sidecar["other"] = {"Levels": {"HED": "Red"}}
    rows = []
    t = 0.0
    for _ in range(g.pick([1, 2, 3, 4, 11, 12])):
        t += g.pick([0.5, 1.0])
        rows.append(["%g" % t, g.pick(strings + ["n/a", "Red", "Blue"]), g.pick(["go", "stop", "go", "n/a", "zzz"]), g.pick(["abc", "n/a", "7", "x"]),
                     g.pick(["a", "b", "n/a"])])
    ops = []
    depth = 0
    n_entry = 0
    for _ in range(g.randint(5, 16)):
        r = g.random()
        if r < 0.2:
            typ = g.pick(["FILE_NAME", "SIDECAR_COLUMN_NAME", "SIDECAR_KEY_NAME", "ROW", "COLUMN"])
            val = {"FILE_NAME": g.pick(["a.tsv", "b.json"]), "SIDECAR_COLUMN_NAME": g.pick(["tt", "val"]), "SIDECAR_KEY_NAME": g.pick(["go", "stop", "Go", "STOP"]),
                   "ROW": g.randrange(1, 16), "COLUMN": g.pick(["HED", "tt"])}[typ]
            ops.append(["push", typ, val])
            depth += 1
        elif r < 0.3 and depth > 0:
            ops.append(["pop"])
            depth -= 1
        elif r < 0.5:
            ops.append(["string", g.randrange(len(strings)), g.chance(0.6)])
            n_entry += 1
        elif r < 0.55:
            # a string validated against the schema loaded under a namespace prefix (own validator, own handler)
            ops.append(["ns_string", g.pick([", ", ",", " , "]).join(g.pick(NS_FRAGS) for _ in range(g.randint(1, 3)))])
        elif r < 0.62:
            ops.append(["sidecar"])
            n_entry += 1
        elif r < 0.7:
            ops.append(["table"])
            n_entry += 1
        elif r < 0.76:
            ops.append(["format", g.randrange(len(strings)), g.randrange(0, 4), g.randrange(1, 6)])
        elif r < 0.82:
            ops.append(["row_redecorate", g.randrange(len(strings)), g.randrange(len(strings))])
        else:
            ops.append(["redecorate", g.randint(1, 3)])
    ops += [["redecorate", 1]] if g.chance(0.3) else []
    tail = g.shuffled([["sort"], ["filter"], ["printable"]])[:g.randint(1, 3)] + [["replace_json"]]
    if g.chance(0.3) and len(rows) > 1:
        rows = g.shuffled(rows)          # onsets out of order: the table entry point adds a file-level warning
    return {"strings": strings, "sidecar": sidecar, "rows": rows, "ops": ops + tail, "warnings": g.chance(0.7),
            "no_onset": g.chance(0.4)}


def shrink(sc):
    ops = sc["ops"]
    for i in range(len(ops)):
        if len(ops) > 1:
            c = copy.deepcopy(sc)
            del c["ops"][i]
            # keep pushes/pops balanced enough: a pop without a push is dropped at execution
            yield c
    for i in range(len(sc["strings"])):
        s = sc["strings"][i]
        parts = [p.strip() for p in _split_top(s)]
        if len(parts) > 1:
            for j in range(len(parts)):
                c = copy.deepcopy(sc)
                c["strings"][i] = ", ".join(parts[:j] + parts[j + 1:])
                yield c
    for i in range(len(sc["rows"])):
        if len(sc["rows"]) > 1:
            c = copy.deepcopy(sc)
            del c["rows"][i]
            yield c
    if not sc["warnings"]:
        c = copy.deepcopy(sc)
        c["warnings"] = True
        yield c


def _split_top(text):
    parts, depth, cur = [], 0, []
    for ch in text:
        if ch == "(":
            depth += 1
        elif ch == ")":
            depth -= 1
        if ch == "," and depth == 0:
            parts.append("".join(cur))
            cur = []
        else:
            cur.append(ch)
    parts.append("".join(cur))
    return [p for p in parts if p.strip()]


# ------------------------------------------------------------------------------------------- oracles
SUFFIX = "Problem spans string indexes"
_FORMATTED = set()      # ids of issues the harness created itself with arbitrary sub-tag ranges (format op)


def _nows(s):
    return "".join(str(s).split())


def _text_of(hs):
    t = getattr(hs, "_hed_string", None)
    return t if isinstance(t, str) else str(hs)


def _loc(i):
    return (i.get("code"), i.get("ec_row"), str(i.get("ec_column")), i.get("ec_sidecarColumnName"), i.get("ec_sidecarKeyName"),
            i.get("char_index"), i.get("char_index_end"))


def _check_issue(W, i, where, viol, probe):
    for k in ("code", "message", "severity"):
        if k not in i or i[k] is None or (k != "severity" and not isinstance(i[k], str)):
            viol("well-formed", "%s: an issue lacks a proper %r: %s" % (where, k, {a: str(b)[:60] for a, b in i.items()}), "issue-without-%s" % k)
            return False
    msg = i["message"]
    n_suffix = msg.count(SUFFIX)
    has = "char_index" in i
    if has:
        probe("issue_with_offsets")
    if i["severity"] > 1:
        probe("warning_issue_seen")
    if n_suffix > 1 or (has and n_suffix != 1):
        viol("suffix-once", "%s: %s message carries the location suffix %d times: %r" % (where, i["code"], n_suffix, msg[-160:]),
             "suffix-%s" % ("doubled" if n_suffix > 1 else "missing"))
        return False
    if has:
        ci, ce = i["char_index"], i.get("char_index_end")
        hs = i.get("ec_HedString")
        if hs is None:
            return True
        text = _text_of(hs)
        if not (isinstance(ci, int) and isinstance(ce, int) and 0 <= ci <= ce <= len(text)):
            viol("offsets", "%s: %s has offsets (%r, %r) outside the validated text %r" % (where, i["code"], ci, ce, text), "offsets-outside-text")
            return False
        frag = text[ci:ce]
        if msg.count(SUFFIX) == 1 and ("%d, %d" % (ci, ce)) not in msg.split(SUFFIX)[1]:
            viol("offsets", "%s: %s suffix %r disagrees with char_index %d, %d" % (where, i["code"], msg.split(SUFFIX)[1], ci, ce),
                 "suffix-disagrees-with-fields")
            return False
        tag = i.get("source_tag")
        org = None
        try:
            org = tag.org_tag if hasattr(tag, "org_tag") else (tag.get_original_hed_string() if hasattr(tag, "get_original_hed_string") else None)
        except Exception:  # noqa
            org = None
        if org:
            ok = False
            pos = text.find(org)
            while pos != -1:
                if pos <= ci and ce <= pos + len(org):
                    ok = True
                    break
                pos = text.find(org, pos + 1)
            if not ok:
                viol("offsets", "%s: %s offsets (%d, %d) = %r do not lie inside the named tag %r in %r" % (where, i["code"], ci, ce, frag, org, text),
                     "offsets-outside-named-tag")
                return False
        exp = EXPECT.get(org) if org and id(i) not in _FORMATTED else None
        if exp and exp[0] == i["code"] and frag != exp[1]:
            viol("offsets", "%s: %s on tag %r has offsets (%d, %d) selecting %r; the offending text is %r" % (where, i["code"], org, ci, ce, frag, exp[1]),
                 "offsets-miss-the-offending-text-%s" % i["code"])
            return False
        if exp and exp[0] == i["code"]:
            probe("known_offending_fragment_checked")
        body = msg.split(SUFFIX)[0]
        if frag and " " in frag and not frag.replace("/", "").strip() and ("'%s'" % frag) not in body:
            # a fragment made of blanks (and slashes) is quoted verbatim or not at all
            viol("offsets", "%s: %s offsets (%d, %d) select %r, but the message quotes something else: %r" % (where, i["code"], ci, ce, frag, body[:200]),
                 "fragment-not-quoted-%s" % i["code"])
            return False
        if frag.strip() and _nows(frag) not in _nows(body):
            viol("offsets", "%s: %s offsets (%d, %d) select %r, which the message does not quote: %r" % (where, i["code"], ci, ce, frag, body[:200]),
                 "fragment-not-quoted-%s" % i["code"])
            return False
    return True


# ------------------------------------------------------------------------------------------- execution
def execute(sc, script=None):
    W = _init()
    violations, probes, trace = [], {}, []

    def probe(k, n=1):
        probes[k] = probes.get(k, 0) + n

    def viol(clause, detail, sig):
        violations.append(Violation(clause, detail, sig).record(PROP))

    EH, EC, er = W["ErrorHandler"], W["ErrorContext"], W["er"]
    schema = W["schema"]
    validator = W["HedValidator"](schema, def_dicts=W["dd"])
    handler = EH(check_for_warnings=sc["warnings"])
    _FORMATTED.clear()
    if not sc["warnings"]:
        probe("warnings_off_run")
    bag = []
    decorated = {}
    entry_kinds = set()
    nontrivial = False
    ctx_names = {"FILE_NAME": EC.FILE_NAME, "SIDECAR_COLUMN_NAME": EC.SIDECAR_COLUMN_NAME, "SIDECAR_KEY_NAME": EC.SIDECAR_KEY_NAME,
                 "ROW": EC.ROW, "COLUMN": EC.COLUMN}

    def sidecar_obj():
        return W["Sidecar"](io.StringIO(json.dumps(sc["sidecar"])), name="sc")

    def table_obj():
        cols = ["onset", "HED", "tt", "val", "zz"]
        rows = [list(r) + ["n/a"] * (len(cols) - len(r)) for r in sc["rows"]]
        if "zz" not in sc["sidecar"]:
            cols, rows = cols[:4], [r[:4] for r in rows]
        if sc.get("no_onset"):
            # without an onset column the row-level checks run on a row string built from the cell strings
            # (HedString.from_hed_strings), whose spans are remapped
            cols, rows = cols[1:], [r[1:] for r in rows]
        df = W["pd"].DataFrame(rows, columns=cols, dtype=str)
        return W["TabularInput"](df, sidecar=sidecar_obj(), name="events")

    def run_entry(kind, arg, eh, push_hs=False):
        if kind == "string":
            hs = W["HedString"](sc["strings"][arg], schema, W["dd"])
            if push_hs:
                eh.push_error_context(EC.HED_STRING, hs)
            try:
                return validator.validate(hs, False, error_handler=eh)
            finally:
                if push_hs:
                    eh.pop_error_context()
        if kind == "sidecar":
            return sidecar_obj().validate(schema, extra_def_dicts=W["dd"], error_handler=eh)
        return table_obj().validate(schema, extra_def_dicts=W["dd"], error_handler=eh)

    for oi, op in enumerate(sc["ops"]):
        if violations:
            break
        kind = op[0]
        where = "step %d (%s)" % (oi, kind)
        try:
            if kind == "push":
                handler.push_error_context(ctx_names[op[1]], op[2])
            elif kind == "pop":
                if handler.error_context:
                    handler.pop_error_context()
            elif kind in ("string", "sidecar", "table"):
                probe("entry_" + kind)
                entry_kinds.add(kind)
                if len(entry_kinds) > 1:
                    probe("handler_shared_across_entry_points")
                    nontrivial = True
                push_hs = kind == "string" and op[2]
                if push_hs:
                    probe("hed_string_context_pushed_by_caller")
                depth0 = len(handler.error_context)
                arg = op[1] if kind == "string" else None
                issues = run_entry(kind, arg, handler, push_hs)
                if len(handler.error_context) != depth0:
                    viol("context-restored", "%s: the handler's context depth is %d after the call, %d before"
                         % (where, len(handler.error_context), depth0), "context-depth-changes-%s" % kind)
                    break
                # fresh handler with the same outer context gives the same issues
                fresh = EH(check_for_warnings=sc["warnings"])
                for (ct, cv) in handler.error_context:
                    fresh.push_error_context(ct, cv)
                issues_f = run_entry(kind, arg, fresh, push_hs)
                if sorted(map(str, map(_loc, issues))) != sorted(map(str, map(_loc, issues_f))):
                    viol("context-restored", "%s: issues with the long-lived handler %s differ from those with a fresh handler %s"
                         % (where, sorted(map(_loc, issues), key=str)[:6], sorted(map(_loc, issues_f), key=str)[:6]), "used-handler-differs-%s" % kind)
                    break
                # errors only == error-severity subset of the warnings-on run
                on = EH(check_for_warnings=True)
                off = EH(check_for_warnings=False)
                i_on = run_entry(kind, arg, on, push_hs)
                i_off = run_entry(kind, arg, off, push_hs)
                want = sorted(str(_loc(i)) for i in i_on if i["severity"] <= 1)
                got = sorted(str(_loc(i)) for i in i_off)
                if want != got:
                    viol("errors-only", "%s: with warnings off the issues are %s, the error-severity subset of the warnings-on run is %s"
                         % (where, got[:6], want[:6]), "errors-only-differs-%s" % kind)
                    break
                for i in issues:
                    decorated[id(i)] = 1
                    if kind == "table" and "char_index" in i and i.get("ec_row") is not None:
                        probe("row_string_offsets")
                bag.extend(issues)
                trace.append([kind, sorted(map(str, map(_loc, issues)))])
            elif kind == "ns_string":
                probe("namespaced_schema_string")
                hs = W["HedString"](op[1], W["schema_ns"])
                eh2 = EH(check_for_warnings=True)
                eh2.push_error_context(EC.HED_STRING, hs)
                for i in W["HedValidator"](W["schema_ns"]).validate(hs, False, error_handler=eh2):
                    if not _check_issue(W, i, where, viol, probe):
                        break
            elif kind == "format":
                hs = W["HedString"](sc["strings"][op[1]], schema)
                tags = hs.get_all_tags() if hs else []
                if tags:
                    tag = tags[op[2] % len(tags)]
                    probe("direct_format_subtag")
                    end = min(len(tag.org_tag), op[3])
                    handler.push_error_context(EC.HED_STRING, hs)
                    new = handler.format_error_with_context(W["VE"].INVALID_TAG_CHARACTER, tag, index_in_tag=0, index_in_tag_end=end)
                    handler.pop_error_context()
                    for i in new:
                        decorated[id(i)] = 1
                        _FORMATTED.add(id(i))
                    bag.extend(new)
                    trace.append(["format", sorted(map(str, map(_loc, new)))])
            elif kind == "row_redecorate":
                # cell-level issues decorated under the cell string, then again under the row string that is assembled
                # from the cell strings (offsets move): the suffix must be replaced, not stacked
                h1 = W["HedString"](sc["strings"][op[1]], schema)
                h2 = W["HedString"](sc["strings"][op[2]], schema)
                handler.push_error_context(EC.HED_STRING, h2)
                new = validator.run_basic_checks(h2, allow_placeholders=False)
                handler.add_context_and_filter(new)
                handler.pop_error_context()
                row = W["HedString"].from_hed_strings([h1, h2])
                handler.push_error_context(EC.HED_STRING, row)
                handler.add_context_and_filter(new)
                handler.pop_error_context()
                for i in new:
                    decorated[id(i)] = 2
                    if "char_index" in i:
                        probe("redecorated_under_row_string")
                        nontrivial = True
                bag.extend(new)
                trace.append(["row_redecorate", sorted(map(str, map(_loc, new)))])
            elif kind == "redecorate":
                for _ in range(op[1]):
                    before = [dict(code=i["code"]) for i in bag]
                    handler.add_context_and_filter(bag)
                    del before
                for i in bag:
                    decorated[id(i)] = decorated.get(id(i), 0) + op[1]
                    if "char_index" in i:
                        probe("decorated_more_than_once")
                        nontrivial = True
            elif kind == "sort":
                probe("sort_checked")
                keyf = lambda d: (str(d.get("ec_title", "")), str(d.get("ec_filename", "")), str(d.get("ec_sidecarColumnName", "")),  # noqa: E731
                                  str(d.get("ec_sidecarKeyName", "")), d.get("ec_row", -1) if isinstance(d.get("ec_row", -1), int) else -1)
                out = er.sort_issues(list(bag))
                if sorted(map(id, out)) != sorted(map(id, bag)):
                    viol("sort", "sort_issues changed the set of issues", "sort-loses-issues")
                    break
                ks = [keyf(d) for d in out]
                for a, b in zip(ks, ks[1:]):
                    if a > b:
                        viol("sort", "sort_issues result is not ordered by (file, sidecar column, key, row): %s before %s" % (a, b), "sort-order")
                        break
                pos = {id(d): n for n, d in enumerate(bag)}
                full = lambda d: keyf(d) + (str(d.get("ec_column", "")), str(d.get("ec_line", "")), str(d.get("ec_section", "")),  # noqa: E731
                                           str(d.get("ec_schema_tag", "")), str(d.get("ec_attribute", "")))
                for a, b in zip(out, out[1:]):
                    if full(a) == full(b) and pos[id(a)] > pos[id(b)]:
                        viol("sort", "sort_issues is not stable: two issues with equal keys were swapped", "sort-unstable")
                        break
                # the descending order is the same sort: same issues, keys non-increasing, ties in reported order
                outr = er.sort_issues(list(bag), reverse=True)
                if sorted(map(id, outr)) != sorted(map(id, bag)):
                    viol("sort", "sort_issues(reverse=True) changed the set of issues", "sort-reverse-loses-issues")
                    break
                ksr = [keyf(d) for d in outr]
                if any(a < b for a, b in zip(ksr, ksr[1:])):
                    viol("sort", "sort_issues(reverse=True) result is not in descending key order", "sort-reverse-order")
                for a, b in zip(outr, outr[1:]):
                    if full(a) == full(b) and pos[id(a)] > pos[id(b)]:
                        viol("sort", "sort_issues(reverse=True) is not stable: two issues with equal keys were swapped", "sort-reverse-unstable")
                        break
            elif kind == "filter":
                errs = EH.filter_issues_by_severity(bag, 1)
                if [id(i) for i in errs] != [id(i) for i in bag if i["severity"] <= 1]:
                    viol("errors-only", "filter_issues_by_severity(…, ERROR) does not return exactly the error-severity issues", "filter-wrong")
            elif kind == "printable":
                probe("printable_checked")
                s = er.get_printable_issue_string(bag, title="t")
                if not isinstance(s, str):
                    viol("well-formed", "get_printable_issue_string returned %r" % type(s), "printable-not-str")
            elif kind == "replace_json":
                probe("json_checked")
                codes = [i["code"] for i in bag]
                er.replace_tag_references(bag)
                try:
                    txt = json.dumps(bag)
                except TypeError as e:
                    viol("json", "after replace_tag_references the issue list is not JSON-serialisable: %s" % e, "json-fails")
                    break
                if [i["code"] for i in json.loads(txt)] != codes:
                    viol("json", "codes changed across replace_tag_references + JSON", "json-codes-change")
                continue
        except Exception as e:  # noqa
            if kind in ("string", "sidecar", "table", "format"):
                # C12 does not promise that validation never raises (C07 does, for files): nothing to judge here
                probe("entry_point_raised_" + type(e).__name__)
                break
            viol("no-exception", "%s raised %s: %s" % (where, type(e).__name__, str(e)[:300]), "%s-raises-%s" % (kind, type(e).__name__))
            break
        for n, i in enumerate(bag):
            if not _check_issue(W, i, "%s, issue %d decorated %d time(s)" % (where, n, decorated.get(id(i), 1)), viol, probe):
                break
    return _result(sc, violations, probes, trace, nontrivial)


def _result(sc, violations, probes, trace, nontrivial):
    seen, uniq = set(), []
    for v in violations:
        if v["signature"] not in seen:
            seen.add(v["signature"])
            uniq.append(v)
    return {"violations": uniq, "digest": core.digest([sc, trace]), "hdigest": core.digest(sc), "rdigest": core.digest(trace),
            "decisions": [], "nontrivial": nontrivial, "probes": probes, "faults": {}, "steps": len(sc["ops"]), "sim_s": 0.0,
            "states": [core.digest(t) for t in trace[-2:]], "sched": core.digest(sc["ops"]),
            "summary": {"ops": [o[0] for o in sc["ops"]], "warnings": sc["warnings"]}}
