"""C19 - The schema cache never serves or keeps a torn schema file.

Simulated processes (populators, loaders, refreshers, lock holders) run the REAL hed_cache /
hed_cache_lock / hed_schema_io code on one cache directory, scheduled at file-operation
granularity by the seeded scheduler; kills (with torn writes), stalls, clock jumps, network
partitions and listing-order permutations are injected.  See DESIGN.md section 4/C19.
"""
import hashlib
import os
import shutil
import tempfile

from sim import core
from sim.core import Decider, Gen, Violation
from sim.sched import Sim
from sim.simfs import SimFS, real_open, real_listdir, tree_state
from sim import stubs

PROP = "C19"
LEVEL = "fault_enumeration"
HASH_VARIANTS = 1
RUNS = {"quick": 1600, "thorough": 240000}
WALL_LIMIT = {"quick": 1500, "thorough": 5 * 3600}
DET_SAMPLE = {"quick": 48, "thorough": 400}
PROBES = ["kill_inside_copy", "kill_between_files", "kill_holding_lock", "load_during_population",
          "lock_contended", "lock_timeout", "refresh_skipped_in_interval", "refresh_ran",
          "load_after_crash", "torn_prefix_delivered", "two_populators_overlap", "partnered_load",
          "load_found_version_missing_then_recovered", "kill_inside_timestamp_write", "s1_enum_kill_beyond_last_step",
          "populator_interrupted_by_io_error", "waiter_gave_up_at_timeout", "load_not_judged_lock_timeout",
          "s5_refresh_overlaps_populator", "s5_load_overlaps_refresh", "load_retried_in_same_process",
          "hung_holder_then_killed", "interval_truth_checked", "tz_not_utc", "tmp_on_other_device",
          "waiter_entered_after_waiting", "refresh_attempt_with_clock_behind_timestamp", "cache_reached_through_symlink", "two_threads_of_one_process"]
RULE = ("Runs 0..S1_N-1 enumerate every crash point (kill before step k, plain and with a torn variant of a pending "
        "write, k = 0..139; probe s1_enum_kill_beyond_last_step shows the enumeration passed the last step) of the "
        "population of one (quick) / six (thorough) fixed file subsets, each followed by fresh loads of every file "
        "(family S1: the crash dimension of these scenarios is enumerated completely); the remaining runs are seeded scenarios of families S1 (other subsets/"
        "knobs), S2 (2 populators + 1-2 loaders, random schedule, optional kill/stall), S3 (2-3 lock holders on one "
        "directory, one on another, stalls, kills), S4 (refresh sequences at seeded simulated times with network "
        "up/down, kills inside the timestamp write, clock jumps, then loads) and S5 (1-2 waves of 1-2 populators, a "
        "downloading refresher, 1-3 loaders and a bare lock holder all at once, one kill and/or stall, then loads of "
        "every file).  A run is non-trivial when at least one "
        "fault fired or two processes overlapped in time; distinct = distinct sha-256 of the complete event history.")
COMPONENTS = {
    "real": ["hed.schema.hed_cache (all functions)", "hed.schema.hed_cache_lock.CacheLock and timestamp functions",
             "hed.schema.hed_schema_io.load_schema_version/_load_schema_version/_load_schema_version_sub",
             "hed.schema.schema_io.schema_util.url_to_file", "shutil.copy/copyfile/copyfileobj (sendfile fast path off)",
             "os.makedirs/os.path.exists/isdir", "the scratch file system (tmpfs)",
             "SchemaLoaderXML on every file content that is not byte-identical to a bundled file, and once per bundled file"],
    "stub": ["portalocker.Lock (flock model with shared / exclusive flags, cross-checked against the real portalocker at batch start)",
             "time.time/sleep/timezone/localtime (simulated clock, per-run time zone)", "make_url_request (simulated GitHub peer)",
             "os.getpid (simulated process id)", "os.rename/replace/link across the temp-directory boundary (EXDEV in half of the runs)",
             "module-level containers of the cache modules (one content per simulated process)",
             "concurrent.futures.ThreadPoolExecutor / threading.Thread as seen by the cache modules (none used by the shipped code)",
             "functools.lru_cache around _load_schema_version removed (every simulated process starts cold)",
             "XML parse of byte-identical bundled content memoised per content hash"],
}
ASSUMPTIONS = [
    "crash model is process kill: bytes delivered by an executed write step stay, un-issued writes are lost, rename is atomic",
    "non-faulty processes take <= 2 ms of simulated time per file operation, so a population fits inside the 1 s lock timeout; "
    "O-load is not asserted for a load attempt that waited out the whole lock timeout (the holder was stalled beyond the assumption)",
    "module-level state of the cache modules is per-process: containers are swapped at every baton change, lru_caches are "
    "emptied when a simulated process starts; os.getpid() returns the simulated process id",
    "the temp directory is another file system in half of the runs (rename across the boundary fails with EXDEV); the local time "
    "zone is a per-run knob",
    "flock model: one exclusive lock per path per open file description, released on close or process death",
    "interleavings are explored at file-operation granularity only",
]

_W = {}   # worker-level state


# ----------------------------------------------------------------------------------------- worker init
def _init_worker():
    if _W:
        return _W
    import hed  # noqa
    from hed.schema import hed_cache, hed_cache_lock, hed_schema_io
    from hed.schema.schema_io import schema_util
    base = tempfile.mkdtemp(prefix="verif-c19-%d-" % os.getpid(),
                            dir="/dev/shm" if os.path.isdir("/dev/shm") else None)
    import atexit
    atexit.register(shutil.rmtree, base, True)
    src = os.path.realpath(os.path.join(os.path.dirname(hed_cache.__file__), "schema_data"))
    ref = os.path.join(base, "ref")
    os.makedirs(ref)
    files = {}
    for n in sorted(real_listdir(src)):
        if n.endswith(".xml"):
            shutil.copyfile(os.path.join(src, n), os.path.join(ref, n))
            with real_open(os.path.join(ref, n), "rb") as f:
                files[n] = f.read()
    _W.update(base=base, ref=ref, src=src, files=files,
              sha={n: hashlib.sha1(d).hexdigest() for n, d in files.items()},
              memo={}, hed_cache=hed_cache, hed_cache_lock=hed_cache_lock, hed_schema_io=hed_schema_io,
              schema_util=schema_util, n_run=0,
              orig_load_schema=hed_schema_io.load_schema,
              orig_lsv=hed_schema_io._load_schema_version,
              orig_enter=hed_cache_lock.CacheLock.__enter__, orig_exit=hed_cache_lock.CacheLock.__exit__)
    _W["with_standard"] = {"HED_score_1.1.0.xml": "8.2.0", "HED_score_2.0.0.xml": "8.3.0",
                           "HED_testlib_2.0.0.xml": "8.2.0", "HED_testlib_2.1.0.xml": "8.2.0",
                           "HED_testlib_3.0.0.xml": "8.2.0"}
    _W["globals0"] = _snapshot_globals([hed_cache, hed_cache_lock, schema_util])
    _check_lock_stub_against_real(base)
    return _W


def _snapshot_globals(mods):
    """Module-level mutable containers of the cache modules as they are in a fresh interpreter.  Simulated processes are
    threads of one interpreter; anything a module remembers at module level (a dict, a set, an lru_cache) is per-process
    state in reality, so it is put back to this snapshot when a run starts and whenever a simulated process starts."""
    import copy
    snap = []
    for m in mods:
        for name, v in sorted(vars(m).items()):
            if name.startswith("__"):
                continue
            if type(v) in (dict, list, set):
                try:
                    snap.append((m, name, v, copy.deepcopy(v)))
                except Exception:  # noqa
                    pass
    return {"containers": snap, "mods": mods}


def _clear_caches(W):
    """lru_caches of the cache modules start empty in a new process."""
    for m in list(W["globals0"]["mods"]) + [W["hed_schema_io"]]:
        for name, v in list(vars(m).items()):
            cc = getattr(v, "cache_clear", None)
            if callable(cc) and not isinstance(v, type):
                cc()


def _reset_process_globals(W):
    g0 = W["globals0"]
    for m, name, obj, val in g0["containers"]:
        import copy
        if type(obj) is dict:
            obj.clear()
            obj.update(copy.deepcopy(val))
        elif type(obj) is list:
            obj[:] = copy.deepcopy(val)
        else:
            obj.clear()
            obj.update(copy.deepcopy(val))
        if getattr(m, name, None) is not obj:
            setattr(m, name, obj)
    for m in list(g0["mods"]) + [W["hed_schema_io"]]:
        for name, v in list(vars(m).items()):
            cc = getattr(v, "cache_clear", None)
            if callable(cc) and not isinstance(v, type):
                cc()
            elif not name.startswith("__") and name not in [c[1] for c in g0["containers"] if c[0] is m] \
                    and m is not W["hed_schema_io"] and type(v) in (dict, list, set):
                # a container that did not exist in the fresh module: created at run time, so drop its content
                v.clear()


class _PerProcessGlobals:
    """Module-level containers of the cache modules are private to an OS process.  Simulated processes are threads of one
    interpreter, so the scheduler swaps the content of every such container when the baton changes hands: a process
    never sees what another one memoised (a stale listing kept by a loader is not refreshed by a populator's bookkeeping)."""

    def __init__(self, W, sim):
        import copy
        self.copy = copy
        self.W = W
        self.items = W["globals0"]["containers"]
        self.views = {}
        self.current = None
        sim.switch_in_hooks.append(self.switch_in)
        sim.switch_out_hooks.append(self.switch_out)

    @staticmethod
    def _put(obj, val):
        if type(obj) is list:
            obj[:] = val
        else:
            obj.clear()
            obj.update(val)

    def key(self, p):
        return self.W["group_of"].get(p.pid, p.pid)

    def switch_in(self, p):
        if not self.items or self.current == self.key(p):
            self.current = self.key(p)
            return
        view = self.views.get(self.key(p))
        for i, (m, name, obj, fresh) in enumerate(self.items):
            self._put(obj, self.copy.deepcopy(fresh) if view is None else view[i])
        self.current = self.key(p)

    def switch_out(self, p):
        if not self.items:
            return
        self.views[self.key(p)] = [self.copy.copy(obj) for (_, _, obj, _) in self.items]


def _check_lock_stub_against_real(base):
    """The flock stub claims: second Lock on the same path cannot acquire while the first holds it
    and raises a LockException after the timeout; acquire succeeds after release.  Validate those
    three facts against the real portalocker so a behaviour change shows as a harness error."""
    import portalocker
    p = os.path.join(base, "real.lock")
    a = portalocker.Lock(p, timeout=0)
    a.acquire()
    b = portalocker.Lock(p, timeout=0.05, check_interval=0.01)
    try:
        b.acquire()
        raise RuntimeError("real portalocker let two Lock objects hold one file: stub model is wrong")
    except portalocker.exceptions.LockException:
        pass
    a.release()
    b.acquire()
    b.release()
    c = portalocker.Lock(p, timeout=0)   # constructing does not acquire
    if c.fh is not None:
        raise RuntimeError("real portalocker.Lock() acquires in the constructor: stub model is wrong")
    # the lock belongs to the inode, not the path: after an unlink a new Lock on the same path does not contend
    a.acquire()
    os.unlink(p)
    d = portalocker.Lock(p, timeout=0)
    try:
        d.acquire()
    except portalocker.exceptions.LockException:
        raise RuntimeError("real flock contends across an unlinked lock file: stub model (per-inode locks) is wrong")
    d.release()
    a.release()
    # shared locks share, and exclude exclusive ones (the stub models flags=LockFlags.SHARED the same way)
    p2 = os.path.join(base, "real2.lock")
    sh = portalocker.LockFlags.SHARED | portalocker.LockFlags.NON_BLOCKING
    s1, s2 = portalocker.Lock(p2, timeout=0, flags=sh), portalocker.Lock(p2, timeout=0, flags=sh)
    s1.acquire()
    try:
        s2.acquire()
    except portalocker.exceptions.LockException:
        raise RuntimeError("real portalocker does not let two SHARED locks coexist: stub model is wrong")
    x = portalocker.Lock(p2, timeout=0)
    try:
        x.acquire()
        raise RuntimeError("real portalocker gave an EXCLUSIVE lock while SHARED ones are held: stub model is wrong")
    except portalocker.exceptions.LockException:
        pass
    s1.release()
    s2.release()


def version_of(fname):
    n = fname[:-4]
    return n[4:] if n.startswith("HED_") else n[3:]


def _memo_schema(fname):
    """Reference parse of a bundled file (real parser, real cache pointing at the complete ref dir)."""
    W = _W
    if fname not in W["memo"]:
        # built lazily, silently (nothing is recorded, no yield point: ref is outside the simulated roots) and
        # with every seam pointing at the complete reference directory, so laziness cannot influence a history
        if fname in PARTNER:
            _memo_schema(PARTNER[fname])
        hc, hio = W["hed_cache"], W["hed_schema_io"]
        saved = (hc.HED_CACHE_DIRECTORY, hio.load_schema, hio._load_schema_version)
        hc.HED_CACHE_DIRECTORY = W["ref"]
        hio.load_schema = W["orig_load_schema"]
        hio._load_schema_version = W["orig_lsv"]
        try:
            W["memo"][fname] = W["orig_load_schema"](os.path.join(W["ref"], fname), name=version_of(fname))
        finally:
            hc.HED_CACHE_DIRECTORY, hio.load_schema, hio._load_schema_version = saved
    return W["memo"][fname]


# ----------------------------------------------------------------------------------------- generation
ALL_FILES = ["HED8.0.0.xml", "HED8.1.0.xml", "HED8.2.0.xml", "HED8.3.0.xml", "HED_score_1.0.0.xml",
             "HED_score_1.1.0.xml", "HED_score_2.0.0.xml", "HED_testlib_1.0.2.xml", "HED_testlib_2.0.0.xml",
             "HED_testlib_2.1.0.xml", "HED_testlib_3.0.0.xml"]
PARTNER = {"HED_score_1.1.0.xml": "HED8.2.0.xml", "HED_score_2.0.0.xml": "HED8.3.0.xml",
           "HED_testlib_2.0.0.xml": "HED8.2.0.xml", "HED_testlib_2.1.0.xml": "HED8.2.0.xml",
           "HED_testlib_3.0.0.xml": "HED8.2.0.xml"}
SIZES = {"HED8.0.0.xml": 316118, "HED8.1.0.xml": 335759, "HED8.2.0.xml": 345995, "HED8.3.0.xml": 594657,
         "HED_score_1.0.0.xml": 350310, "HED_score_1.1.0.xml": 791720, "HED_score_2.0.0.xml": 959084,
         "HED_testlib_1.0.2.xml": 316637, "HED_testlib_2.0.0.xml": 351242, "HED_testlib_2.1.0.xml": 350158,
         "HED_testlib_3.0.0.xml": 349057}
S1_BLOCK = 280          # run indices per enumerated scenario: kill step 0..139, each plain and torn
S1_N = {"quick": 280, "thorough": 1680}
S1_VARIANTS = [(["HED8.2.0.xml", "HED_testlib_2.0.0.xml", "HED_score_1.0.0.xml"], 131072),
               (["HED8.3.0.xml", "HED_score_2.0.0.xml"], 262144),
               (["HED8.0.0.xml", "HED8.1.0.xml", "HED8.2.0.xml", "HED_testlib_2.1.0.xml"], 1 << 20),
               (["HED8.2.0.xml", "HED_score_1.1.0.xml", "HED_testlib_3.0.0.xml"], 65536),
               (["HED8.3.0.xml"], 65536),
               (["HED8.0.0.xml", "HED_testlib_1.0.2.xml"], 16384)]


def _knobs(g):
    return {"chunk": g.pick([4096, 16384, 65536, 262144, 1 << 20]),
            "bufsize": g.pick([16384, 65536, 131072, 262144, 1 << 20]),
            "permute": g.chance(0.5), "proxy_reads": g.chance(0.6),
            "sched_seed": g.randrange(1 << 30),
            # environment: local time zone (seconds west of UTC) and whether the temp directory is another file system
            "tz": g.pick([0, 0, -7200, 18000, -19800, 28800]), "tmp_dev": g.chance(0.5)}


def _file_subset(g, lo=2, hi=5):
    files = g.subset(ALL_FILES, lo, hi)
    for f in list(files):
        if f in PARTNER and PARTNER[f] not in files:
            files.append(PARTNER[f])
    return sorted(files)


def _dur(g):
    return round(g.uniform(0.00005, 0.002), 6)


def _proc(g, kind, **args):
    return {"kind": kind, "args": args, "dur": _dur(g), "start": round(g.uniform(0, 0.02), 5), "faults": []}


def _hung_then_killed(g, procs, files):
    pops = [p for p in procs if p["kind"] == "populate"]
    if not pops:
        return
    a = pops[0]
    a["start"] = 0.0
    k = g.randrange(3, 12 * len(files))
    a["faults"] = [{"kind": "stall", "step": k, "dur": round(g.uniform(1.3, 2.5), 3)},
                   {"kind": "kill", "step": k + g.randrange(1, 4), "torn": g.pick([None, 0.5])}]
    for p in procs:
        if p["kind"] == "load":
            p["start"] = round(g.uniform(0.001, 0.2), 5)
            p["args"]["retries"] = 1
            p["args"]["retry_wait"] = round(g.uniform(1.5, 4.0), 3)


def generate(run_index, seed, tier):
    g = Gen(seed)
    n_enum = S1_N[tier]
    if run_index < n_enum:
        # complete crash-point enumeration of ONE population scenario (fixed by the master seed via run 0's stream)
        variant = run_index // S1_BLOCK
        files, chunk = S1_VARIANTS[variant % len(S1_VARIANTS)]
        sc = {"family": "S1", "files": list(files), "chunk": chunk, "bufsize": chunk, "permute": False,
              "proxy_reads": False, "sched_seed": 7, "net_up": False, "phases": []}
        step = (run_index % S1_BLOCK) // 2
        torn = None if run_index % 2 == 0 else 0.5
        pop = {"kind": "populate", "args": {}, "dur": 0.0005, "start": 0.0,
               "faults": [{"kind": "kill", "step": step, "torn": torn}]}
        sc["phases"].append({"procs": [pop], "gap": 1.0})
        sc["phases"].append({"procs": [{"kind": "load", "args": {"version": version_of(f)}, "dur": 0.0005,
                                        "start": 0.0, "faults": []} for f in files], "gap": 0.0})
        sc["enumerated"] = True
        return sc
    fam = g.pick(["S1", "S2", "S2", "S3", "S4", "S4", "S5"])
    sc = {"family": fam}
    sc.update(_knobs(g))
    sc["net_up"] = g.chance(0.5)
    phases = []
    if fam == "S1":
        files = _file_subset(g)
        pop = _proc(g, g.pick(["populate", "populate", "load"]))
        if pop["kind"] == "load":
            pop["args"]["version"] = version_of(g.pick(files))
        if pop["kind"] == "populate" and g.chance(0.25):
            # a different interruption: the disk fills up / an I/O error hits one of the populator's writes
            pop["faults"].append({"kind": "ioerr", "step": g.randrange(0, 30 * len(files)), "errno": g.pick([28, 5])})
        else:
            pop["faults"].append({"kind": "kill", "step": g.randrange(0, 30 * len(files)),
                                  "torn": g.pick([None, None, 0.25, 0.5, 0.9])})
        phases.append({"procs": [pop], "gap": round(g.uniform(0, 5), 3)})
        if g.chance(0.35):
            p2 = _proc(g, "populate")
            if g.chance(0.4):
                p2["faults"].append({"kind": "kill", "step": g.randrange(0, 30 * len(files)),
                                     "torn": g.pick([None, 0.5])})
            phases.append({"procs": [p2], "gap": round(g.uniform(0, 5), 3)})
        phases.append({"procs": [_proc(g, "load", version=version_of(f)) for f in g.subset(files, 1, 3)], "gap": 0.0})
    elif fam == "S2":
        files = _file_subset(g, 2, 4)
        procs = []
        for _ in range(g.pick([1, 2, 2])):
            procs.append(_proc(g, g.pick(["populate", "populate", "load"])))
        for _ in range(g.pick([1, 1, 2])):
            procs.append(_proc(g, "load"))
        for p in procs:
            if p["kind"] == "load":
                p["args"]["version"] = version_of(g.pick(files))
        if g.chance(0.5):
            p = g.pick(procs)
            p["faults"].append({"kind": "kill", "step": g.randrange(0, 25 * len(files)),
                                "torn": g.pick([None, 0.5])})
        if g.chance(0.2):
            p = g.pick(procs)
            p["faults"].append({"kind": "stall", "step": g.randrange(0, 25 * len(files)),
                                "dur": round(g.uniform(0.1, 3.0), 3)})
        if g.chance(0.25):
            # a process that hangs while it holds the lock and is then killed (by an operator, the OOM killer, ...):
            # waiters time out meanwhile; a loader that tries again afterwards in the SAME process must succeed
            _hung_then_killed(g, procs, files)
        phases.append({"procs": procs, "gap": round(g.uniform(0, 3), 3)})
        phases.append({"procs": [_proc(g, "load", version=version_of(f)) for f in g.subset(files, 1, 2)], "gap": 0.0})
    elif fam == "S3":
        files = _file_subset(g, 2, 2)
        procs = []
        for i in range(g.pick([2, 2, 3])):
            procs.append(_proc(g, "hold", dir="cache", steps=g.randrange(1, 12),
                               write_time=False, hold_sleep=g.pick([0, 0, 0.05, 0.5, 2.0])))
        if g.chance(0.6):
            procs.append(_proc(g, "hold", dir="other", steps=g.randrange(1, 8), write_time=False, hold_sleep=0))
        if g.chance(0.4):
            procs.append(_proc(g, "populate"))
        if g.chance(0.3):
            # two of them are threads of one process (a service handling two requests): same pid, same module state
            for p in procs[:2]:
                p["group"] = 1
        if g.chance(0.3):
            p = g.pick([q for q in procs if q.get("group") is None] or procs)
            if p.get("group") is None:
                p["faults"].append({"kind": "kill", "step": g.randrange(0, 20), "torn": None})
        if g.chance(0.3):
            p = g.pick(procs)
            p["faults"].append({"kind": "stall", "step": g.randrange(2, 20), "dur": round(g.uniform(0.5, 4.0), 3)})
        phases.append({"procs": procs, "gap": 0.0})
    elif fam == "S5":
        # everything at once on one directory: populators, a refresher that downloads what is not there yet,
        # loaders and a bare lock holder, with one kill and/or stall somewhere; then a second wave after the gap
        files = _file_subset(g, 2, 3)
        sc["net_up"] = True
        for wave in range(g.pick([1, 2])):
            procs = [_proc(g, "populate") for _ in range(g.pick([1, 2]))]
            procs.append(_proc(g, "refresh", net=g.chance(0.8)))
            for _ in range(g.pick([1, 2, 3])):
                procs.append(_proc(g, "load", version=version_of(g.pick(files))))
            if g.chance(0.3):
                procs.append(_proc(g, "hold", dir="cache", steps=g.randrange(1, 6), write_time=False, hold_sleep=0))
            if g.chance(0.6):
                p = g.pick(procs)
                p["faults"].append({"kind": "kill", "step": g.randrange(0, 25 * len(files)),
                                    "torn": g.pick([None, 0.3, 0.7])})
            if g.chance(0.15):
                p = g.pick(procs)
                p["faults"].append({"kind": "stall", "step": g.randrange(0, 25 * len(files)),
                                    "dur": round(g.uniform(0.1, 2.0), 3)})
            if g.chance(0.2):
                _hung_then_killed(g, procs, files)
            phases.append({"procs": procs, "gap": g.pick([0.0, 0.5, 5.0, 2000.0])})
        phases.append({"procs": [_proc(g, "load", version=version_of(f)) for f in files], "gap": 0.0})
    else:  # S4
        files = _file_subset(g, 2, 3)
        if g.chance(0.6):
            phases.append({"procs": [_proc(g, "populate")], "gap": round(g.uniform(0, 100), 3)})
        if g.chance(0.3):
            # a caller that uses CacheLock(write_time=True) directly, the object made some time before it is entered
            h_ = _proc(g, "hold", dir="cache", steps=g.randrange(1, 4), write_time=True, hold_sleep=0,
                       pre_sleep=g.pick([0, 200.0, 1000.0, 1700.0]))
            phases.append({"procs": [h_], "gap": g.pick([60.0, 600.0, 1000.0])})
        for _ in range(g.randrange(1, 5)):
            r = _proc(g, "refresh", net=g.chance(0.6))
            if g.chance(0.3):
                r["faults"].append({"kind": "kill", "step": g.randrange(0, 60), "torn": g.pick([None, 0.5])})
            if g.chance(0.1):
                r["faults"].append({"kind": "jump", "step": g.randrange(0, 10),
                                    "delta": g.pick([-3600.0, -10.0, 10.0, 4000.0])})
            procs = [r]
            if g.chance(0.25):
                procs.append(_proc(g, "refresh", net=r["args"]["net"]))
            if g.chance(0.25):
                procs.append(_proc(g, "load", version=version_of(g.pick(files))))
            phases.append({"procs": procs, "gap": g.pick([0.0, 1.0, 60.0, 600.0, 1799.0, 1801.0, 5000.0])})
        phases.append({"procs": [_proc(g, "load", version=version_of(f)) for f in g.subset(files, 1, 2)], "gap": 0.0})
    if fam != "S4" and g.chance(0.3):
        # some processes reach the cache directory through a symbolic link: one directory, two spellings
        sc["link"] = True
        for ph in phases:
            for pr in ph["procs"]:
                if pr["kind"] in ("populate", "load", "hold") and pr["args"].get("dir", "cache") == "cache" and g.chance(0.5):
                    pr["args"]["via_link"] = True
    sc["files"] = files
    sc["phases"] = phases
    # timing assumption (ASSUMPTIONS): a non-faulty population or refresh holds the lock for well under the 1 s lock
    # timeout.  Estimate its number of steps from the file sizes and the chunk size and cap the per-step duration.
    unit = max(1, min(sc["chunk"], sc["bufsize"]))
    est = sum(SIZES[f] // unit + 14 for f in files) + 20
    cap = round(0.35 / est, 7)
    for ph in phases:
        for pr in ph["procs"]:
            if pr["kind"] in ("populate", "refresh", "load"):
                pr["dur"] = min(pr["dur"], cap)
    return sc


def shrink(sc):
    import copy
    ph = sc["phases"]
    # drop a whole phase
    for i in range(len(ph)):
        if len(ph) > 1:
            c = copy.deepcopy(sc)
            del c["phases"][i]
            yield c
    # drop a process
    for i, p in enumerate(ph):
        for j in range(len(p["procs"])):
            if len(p["procs"]) > 1:
                c = copy.deepcopy(sc)
                del c["phases"][i]["procs"][j]
                yield c
    # drop a file
    for f in sc["files"]:
        if len(sc["files"]) > 1 and f not in PARTNER.values():
            c = copy.deepcopy(sc)
            c["files"].remove(f)
            used = {pr["args"].get("version") for p_ in c["phases"] for pr in p_["procs"]}
            if version_of(f) in used:
                continue
            yield c
    # drop a fault / simplify it
    for i, p in enumerate(ph):
        for j, pr in enumerate(p["procs"]):
            for k, f in enumerate(pr["faults"]):
                c = copy.deepcopy(sc)
                del c["phases"][i]["procs"][j]["faults"][k]
                yield c
                if f.get("torn") is not None:
                    c = copy.deepcopy(sc)
                    c["phases"][i]["procs"][j]["faults"][k]["torn"] = None
                    yield c
                if f["kind"] == "kill" and f["step"] > 0:
                    for s in (f["step"] // 2, f["step"] - 1):
                        c = copy.deepcopy(sc)
                        c["phases"][i]["procs"][j]["faults"][k]["step"] = s
                        yield c
    # simpler knobs
    for key, val in (("permute", False), ("proxy_reads", False), ("chunk", 1 << 20), ("bufsize", 1 << 20)):
        if sc.get(key) != val:
            c = copy.deepcopy(sc)
            c[key] = val
            yield c
    for i, p in enumerate(ph):
        if p["gap"]:
            c = copy.deepcopy(sc)
            c["phases"][i]["gap"] = 0.0
            yield c
        for j, pr in enumerate(p["procs"]):
            if pr["start"]:
                c = copy.deepcopy(sc)
                c["phases"][i]["procs"][j]["start"] = 0.0
                yield c


# ----------------------------------------------------------------------------------------- execution
class _Env:
    """Binds the library's seams to this run's simulator; restores everything on exit."""

    def __init__(self, W, sim, fs, root, peer, lockworld, events, tz=0):
        self.tz = tz
        self.W, self.sim, self.fs, self.root = W, sim, fs, root
        self.peer, self.lockworld, self.events = peer, lockworld, events
        self.saved = []

    def _set(self, obj, name, value):
        self.saved.append((obj, name, getattr(obj, name)))
        setattr(obj, name, value)

    def __enter__(self):
        W, sim = self.W, self.sim
        hc, hl, hio, su = W["hed_cache"], W["hed_cache_lock"], W["hed_schema_io"], W["schema_util"]
        self._set(hc, "INSTALLED_CACHE_LOCATION", os.path.join(self.root, "installed"))
        self._set(hc, "HED_CACHE_DIRECTORY", os.path.join(self.root, "cache"))
        self._set(hl, "time", stubs.FakeTimeModule(sim, tz_west=self.tz))
        # process identity: every simulated process has its own pid (they are threads of one interpreter)
        group_of = self.W["group_of"]
        self._set(os, "getpid", lambda: 4000 + (group_of.get(sim.current().pid, sim.current().pid) if sim.current() is not None else 0))
        self._set(hl, "portalocker", stubs.make_fake_portalocker(self.lockworld, default_timeout=5.0))
        self._set(hc, "make_url_request", self.peer.make_url_request)
        self._set(su, "make_url_request", self.peer.make_url_request)
        self._set(hio, "_load_schema_version", W["orig_lsv"].__wrapped__)
        self._set(hio, "load_schema", self._load_schema)
        undo, self.thread_counts = stubs.bind_thread_seams([hc, hl, hio, su], sim)    # no-op for code without threads
        self.saved.extend(undo)
        self._set(tempfile, "tempdir", os.path.join(self.root, "tmp"))
        self._set(tempfile, "_name_sequence", stubs.NameSequence("tmp"))
        events = self.events
        orig_enter, orig_exit = W["orig_enter"], W["orig_exit"]

        def enter(lock_self):
            p = sim.current()
            pid = p.pid if p else -1
            t0 = sim.monotonic()
            wall0 = sim.now
            s0 = sim.record("cl-enter-call", fs_rel(self.fs, lock_self.cache_folder))
            stamp0 = _read_stamp(lock_self.cache_folder)
            try:
                r = orig_enter(lock_self)
            except BaseException as e:
                events.append({"ev": "enter-raised", "pid": pid, "dir": os.path.realpath(lock_self.cache_folder), "seq": sim.seq,
                               "t0": t0, "t1": sim.monotonic(), "exc": type(e).__name__, "msg": str(e)[:200], "seq0": s0, "wall0": wall0,
                               "stamp0": stamp0, "write_time": lock_self.write_time})
                sim.record("cl-enter-raised", fs_rel(self.fs, lock_self.cache_folder), type(e).__name__)
                raise
            s = sim.record("cl-enter-returned", fs_rel(self.fs, lock_self.cache_folder))
            events.append({"ev": "enter-returned", "pid": pid, "dir": os.path.realpath(lock_self.cache_folder), "seq": s,
                           "t0": t0, "t1": sim.monotonic(), "obj": id(lock_self), "seq0": s0, "wall0": wall0,
                           "stamp0": stamp0, "write_time": lock_self.write_time})
            return r

        def exit_(lock_self, *a):
            p = sim.current()
            pid = p.pid if p else -1
            s = sim.record("cl-exit-called", fs_rel(self.fs, lock_self.cache_folder))
            events.append({"ev": "exit-called", "pid": pid, "dir": os.path.realpath(lock_self.cache_folder), "seq": s, "obj": id(lock_self)})
            r = orig_exit(lock_self, *a)
            s2 = sim.record("cl-exit-returned", fs_rel(self.fs, lock_self.cache_folder))
            events.append({"ev": "exit-returned", "pid": pid, "dir": os.path.realpath(lock_self.cache_folder), "seq": s2, "seq_call": s,
                           "obj": id(lock_self), "wall": sim.now, "write_time": lock_self.write_time})
            return r

        self._set(hl.CacheLock, "__enter__", enter)
        self._set(hl.CacheLock, "__exit__", exit_)
        return self

    def __exit__(self, *a):
        for obj, name, val in reversed(self.saved):
            setattr(obj, name, val)
        return False

    def _load_schema(self, hed_path, schema_namespace=None, schema=None, name=None):
        """Seam in front of the XML parser: reads the file through the interposed open (a yield point,
        so a concurrent writer is observed at exactly this step); byte-identical bundled content is
        served from the per-hash memo, anything else is handed to the REAL load_schema unchanged."""
        W, sim = self.W, self.sim
        if not hed_path or schema is not None or schema_namespace or not str(hed_path).lower().endswith(".xml"):
            return W["orig_load_schema"](hed_path, schema_namespace=schema_namespace, schema=schema, name=name)
        try:
            with open(hed_path, "rb") as f:
                data = f.read()
        except OSError:
            return W["orig_load_schema"](hed_path, schema_namespace=schema_namespace, schema=schema, name=name)
        sha = hashlib.sha1(data).hexdigest()
        rel = fs_rel(self.fs, hed_path)
        fname = None
        for n, s in W["sha"].items():
            if s == sha:
                fname = n
                break
        sim.record("parsed", rel, {"sha": sha[:12], "len": len(data), "bundled": fname})
        if fname is None:
            # not a bundled content: the real parser decides (on exactly the bytes that were read)
            private = os.path.join(W["base"], "seen-%s.xml" % sha[:16])
            with real_open(private, "wb") as f:
                f.write(data)
            try:
                return W["orig_load_schema"](private, name=name)
            finally:
                os.unlink(private)
        partner = W["with_standard"].get(fname)
        if partner:
            from hed.errors.exceptions import HedFileError, HedExceptions
            try:
                W["hed_schema_io"].load_schema_version(partner)   # the partner goes through the same cache
            except HedFileError as e:
                raise HedFileError(HedExceptions.BAD_WITH_STANDARD,
                                   message="Cannot load withStandard schema '%s'" % partner, filename=e.filename)
        return _memo_schema(fname)


def _read_stamp(folder):
    try:
        with real_open(os.path.join(folder, "last_update.txt"), "r") as f:
            return float(f.readline())
    except (OSError, ValueError):
        return None


_HEX = None


def fs_rel(fs, path):
    """Name of a path in the recorded history: relative to the run's root, the symlinked spelling of the cache folded onto
    the real one, and hash-like name parts (derived from absolute scratch paths by some implementations) masked."""
    global _HEX
    if _HEX is None:
        import re
        _HEX = re.compile(r"(?<![0-9a-zA-Z])[0-9a-f]{12,64}(?![0-9a-zA-Z])")
    r = fs._rel(path)
    r = r if r is not None else str(path)
    return _canon_rel(r)


def _canon_rel(r):
    global _HEX
    if _HEX is None:
        import re
        _HEX = re.compile(r"(?<![0-9a-zA-Z])[0-9a-f]{12,64}(?![0-9a-zA-Z])")
    if r == "cachelink" or r.startswith("cachelink/"):
        r = "cache" + r[len("cachelink"):]
    return _HEX.sub("<hex>", r)


def _actor(kind, args, W, sim, root, peer):
    hc, hl, hio = W["hed_cache"], W["hed_cache_lock"], W["hed_schema_io"]
    cache = os.path.join(root, "cachelink" if args.get("via_link") else "cache")
    if kind == "populate":
        def populate():
            _clear_caches(W)
            return ("populate", hc.cache_local_versions(cache))
        return populate
    if kind == "load":
        def load():
            _clear_caches(W)
            from hed.errors.exceptions import HedFileError
            for attempt in range(int(args.get("retries", 0)) + 1):
                W["attempt_seq"][sim.current().pid] = sim.record("load-attempt", None, attempt)
                try:
                    s = hio.load_schema_version(args["version"], xml_folder=cache) if args.get("via_link") \
                        else hio.load_schema_version(args["version"])
                    return ("load", s)
                except (HedFileError, hl.CacheException):
                    if attempt == int(args.get("retries", 0)):
                        raise
                    sim.sleep(args.get("retry_wait", 2.0))      # the same process tries again a little later
        return load
    if kind == "refresh":
        def refresh():
            _clear_caches(W)
            peer.up = bool(args.get("net"))
            n0 = len(peer.requests)
            r = hc.cache_xml_versions(cache_folder=cache)
            return ("refresh", r, None, len(peer.requests) - n0)
        return refresh
    if kind == "hold":
        d = cache if args["dir"] == "cache" else os.path.join(root, "other")

        def hold():
            try:
                lock = hl.CacheLock(d, write_time=args.get("write_time", False))
                if args.get("pre_sleep"):
                    sim.sleep(args["pre_sleep"])         # the object was made some time before it is entered
                with lock:
                    for _ in range(args["steps"]):
                        sim.yield_point("hold", args["dir"], None)
                    if args.get("hold_sleep"):
                        sim.sleep(args["hold_sleep"])
                return ("hold", "held")
            except hl.CacheException as e:
                return ("hold", "CacheException", str(e)[:80])
        return hold
    raise ValueError(kind)


def execute(sc, script=None):
    W = _init_worker()
    W["n_run"] += 1
    root = os.path.join(W["base"], "run")
    shutil.rmtree(root, ignore_errors=True)
    os.makedirs(os.path.join(root, "installed"))
    os.makedirs(os.path.join(root, "tmp"))
    if sc.get("link"):
        os.makedirs(os.path.join(root, "cache"))       # the link names an existing directory
    os.symlink(os.path.join(root, "cache"), os.path.join(root, "cachelink"))     # a second spelling of the cache directory
    for n in sc["files"]:
        os.link(os.path.join(W["ref"], n), os.path.join(root, "installed", n))
    decider = Decider(sc["sched_seed"], script)
    sim = Sim(decider, max_steps=200000)
    fs = SimFS(sim, [root], chunk=sc["chunk"], copy_bufsize=sc["bufsize"], permute_listing=sc["permute"],
               proxy_reads=sc["proxy_reads"], devices=(["tmp"] if sc.get("tmp_dev") else []))
    fs.rel_filter = _canon_rel
    W["group_of"] = {}      # simulated pid -> id of the OS process it is a thread of (absent: a process of its own)
    _reset_process_globals(W)
    _PerProcessGlobals(W, sim)
    W["attempt_seq"] = {}
    lockworld = stubs.LockWorld(sim, rel=lambda p: fs_rel(fs, p))
    peer = stubs.Peer(sim, _peer_files(W, sc))
    peer.up = bool(sc.get("net_up"))
    events = []
    violations = []
    probes = {}
    states = []
    procs_meta = []   # (phase, spec, Proc)

    def probe(name, n=1):
        probes[name] = probes.get(name, 0) + n

    cache = os.path.join(root, "cache")
    try:
        with fs, _Env(W, sim, fs, root, peer, lockworld, events, tz=sc.get("tz", 0)):
            for pi, ph in enumerate(sc["phases"]):
                t_phase = sim.now
                for spec in ph["procs"]:
                    fn = _actor(spec["kind"], spec["args"], W, sim, root, peer)
                    p = sim.spawn(spec["kind"], fn, start_at=t_phase + spec["start"], op_dur=spec["dur"])
                    if spec.get("group") is not None:
                        W["group_of"][p.pid] = 9000 + 10 * pi + int(spec["group"])      # a thread of that process
                    for f in spec["faults"]:
                        ff = dict(f)
                        ff["pid"] = p.pid
                        sim.faults.setdefault((p.pid, f["step"]), []).append(ff)
                    procs_meta.append((pi, spec, p))
                sim.run()
                if sim.truncated:
                    # bounded liveness: every process of a phase ends (returns, raises or is killed) within the step budget -
                    # a waiter must give up at its timeout, nobody may spin
                    live = [(m[1]["kind"], m[2].state) for m in procs_meta if m[0] == pi and m[2].state not in ("done", "failed", "killed")]
                    violations.append(Violation(
                        "O-timeout", "phase %d did not finish within %d scheduler steps: %s still running (a waiter that never "
                        "gives up, or a loop without progress)" % (pi, sim.max_steps, live), "no-progress-within-step-budget").record(PROP))
                    break
                # quiescent point: no file with a version-pattern name may differ from its source
                st = tree_state(cache)
                states.append(core.digest(sorted((k, v) for k, v in st.items())))
                _check_quiescent(W, sc, st, violations, pi)
                sim._advance(ph["gap"])
    finally:
        fs.uninstall()
    _check_history(W, sc, sim, events, procs_meta, violations, probe, lockworld, peer, tree_state(cache))
    for k, v in fs.counts.items():
        if k in ("torn_prefix_delivered", "listing_permuted", "io_error_raised"):
            probe(k, v)
    faults = dict(sim.fired)
    if fs.counts.get("listing_permuted"):
        faults["listing_permuted"] = fs.counts["listing_permuted"]
    if fs.counts.get("torn_prefix_delivered"):
        faults["torn_write"] = fs.counts["torn_prefix_delivered"]
    if fs.counts.get("io_error_raised"):
        faults["io_error"] = fs.counts["io_error_raised"]
    n_net_down = sum(1 for h in sim.history if h[3] == "net" and h[6] == "down")
    if n_net_down:
        faults["net_partition_hit"] = n_net_down
    if sc.get("enumerated") and not sim.fired.get("kill"):
        probe("s1_enum_kill_beyond_last_step")     # the enumeration ran past the populator's last step: it is complete
    if any(pr.get("group") is not None for ph in sc["phases"] for pr in ph["procs"]):
        probe("two_threads_of_one_process")
    if sc.get("link"):
        probe("cache_reached_through_symlink")
    if sc.get("tz"):
        probe("tz_not_utc")
    if sc.get("tmp_dev"):
        probe("tmp_on_other_device")
    for (_pi, spec_, p_) in procs_meta:
        fk = [f["kind"] for f in spec_["faults"]]
        if "stall" in fk and "kill" in fk and p_.state == "killed" and sim.fired.get("stall"):
            probe("hung_holder_then_killed")
    overlap = probes.get("two_procs_overlap", 0)
    hist = [list(h) for h in sim.history]
    seen = set()
    uniq = []
    for v in violations:
        if v["signature"] not in seen:
            seen.add(v["signature"])
            v["detail"] = v["detail"].replace(W["base"], "<scratch>")
            uniq.append(v)
    return {
        "violations": uniq, "digest": core.digest(hist), "hdigest": core.digest([sc, decider.log]),
        "rdigest": "", "decisions": decider.log, "nontrivial": bool(sim.fired) or overlap > 0,
        "probes": probes, "faults": faults, "steps": sim.steps, "sim_s": sim.now - 1.7e9, "states": states,
        "sched": core.digest(sim.schedule),
        "summary": {"steps": sim.steps, "procs": [(m[1]["kind"], m[2].state) for m in procs_meta]},
    }


def _peer_files(W, sc):
    std, libs = {}, {}
    for n in sc["files"]:
        if n.startswith("HED_"):
            lib = n.split("_")[1]
            libs.setdefault(lib, {})[n] = W["files"][n]
        else:
            std[n] = W["files"][n]
    return {"standard": std, "libs": libs}


def _check_quiescent(W, sc, st, violations, phase):
    import re
    pat = W["hed_cache"].version_pattern
    for rel, v in sorted(st.items()):
        if "/" in rel or v == "dir":
            continue
        if pat.match(rel):
            want = W["files"].get(rel)
            if want is None:
                continue
            if v != (len(want), W["sha"][rel]):
                violations.append(Violation(
                    "O-final", "after phase %d the cache holds %s with %d bytes (sha1 %s) but the bundled file has %d bytes"
                    % (phase, rel, v[0], v[1][:10], len(want)),
                    "torn-file-kept-under-version-name").record(PROP))
    del re


def _check_history(W, sc, sim, events, procs_meta, violations, probe, lockworld, peer, final_state):
    hl = W["hed_cache_lock"]
    hist = sim.history
    # ---- bookkeeping of process lifetimes (in global event sequence numbers)
    first_seq, last_seq = {}, {}
    for h in hist:
        pid = h[1]
        first_seq.setdefault(pid, h[0])
        last_seq[pid] = h[0]
    faulted = {}     # pid -> set of fault kinds that fired on it
    for h in hist:
        if h[3] in ("KILL", "STALL", "JUMP"):
            faulted.setdefault(h[1], set()).add(h[3])
    any_stall_or_jump = any(h[3] in ("STALL", "JUMP") for h in hist)

    def overlaps(p, q):
        return (p.pid in first_seq and q.pid in first_seq and first_seq[p.pid] < last_seq[q.pid]
                and first_seq[q.pid] < last_seq[p.pid])

    for i, (pa, sa, a) in enumerate(procs_meta):
        for (pb, sb, b) in procs_meta[i + 1:]:
            if pa == pb and overlaps(a, b):
                probe("two_procs_overlap")
                kinds = {sa["kind"], sb["kind"]}
                if kinds == {"populate"}:
                    probe("two_populators_overlap")
                if kinds == {"populate", "load"}:
                    probe("load_during_population")
                if kinds == {"populate", "refresh"}:
                    probe("s5_refresh_overlaps_populator")
                if kinds == {"load", "refresh"}:
                    probe("s5_load_overlaps_refresh")
    # ---- kill classification probes
    for h in hist:
        if h[3] == "KILL":
            pend = (h[5] or {}).get("pending")
            if pend and pend[0] == "write" and pend[1] and pend[1].startswith("cache/HED"):
                probe("kill_inside_copy")
            elif pend and pend[1] and str(pend[1]).endswith("last_update.txt"):
                probe("kill_inside_timestamp_write")
            elif pend:
                probe("kill_between_files")
            if any(e["ev"] == "enter-returned" and e["pid"] == h[1] and e["seq"] < h[0]
                   and not any(x["ev"] == "exit-called" and x["pid"] == h[1] and e["seq"] < x["seq"] < h[0] for x in events)
                   for e in events):
                probe("kill_holding_lock")
    probe("lock_contended", lockworld.contended)
    probe("lock_timeout", lockworld.timeouts)
    # ---- O-load
    killed_before = False
    for (pi, spec, p) in procs_meta:
        if spec["kind"] == "load":
            fname = [f for f in sc["files"] if version_of(f) == spec["args"]["version"]][0]
            if W["with_standard"].get(fname):
                probe("partnered_load")
            if any(q.state == "killed" and q.end_seq is not None and q.end_seq <= (first_seq.get(p.pid) or 0)
                   for (_, _, q) in procs_meta):
                probe("load_after_crash")
            if p.state in ("killed", "aborted"):
                continue
            phase_faulted = any(h[3] in ("STALL", "JUMP") for h in hist
                                if any(q.pid == h[1] for (pj, _, q) in procs_meta if pj == pi))
            if phase_faulted:
                probe("load_judged_in_phase_with_stall_or_jump")
            # relaxation (stated in ASSUMPTIONS): the final attempt of a loader is not judged when it waited out the full lock
            # timeout - the lock was held by a live (stalled) process for longer than the timing assumption allows
            a_seq = W["attempt_seq"].get(p.pid, 0)
            if spec["args"].get("retries"):
                probe("load_with_retry")
                if sum(1 for h in hist if h[1] == p.pid and h[3] == "load-attempt") > 1:
                    probe("load_retried_in_same_process")
            if p.state == "failed" and any(ev["ev"] == "enter-raised" and ev["pid"] == p.pid and ev["exc"] == "CacheException"
                                           and ev["seq0"] > a_seq
                                           and "Could not lock" in ev["msg"] and ev["t1"] - ev["t0"] >= 0.99 for ev in events):
                probe("load_not_judged_lock_timeout")
                continue
            if p.state == "failed":
                e = p.exc
                msg = "%s: %s" % (type(e).__name__, str(getattr(e, "message", e))[:200])
                code = getattr(e, "code", type(e).__name__)
                violations.append(Violation(
                    "O-load", "load_schema_version(%r) raised %s (phase %d, cache state %s)"
                    % (spec["args"]["version"], msg, pi, _state_brief(final_state)),
                    "load-raised-%s" % code).record(PROP))
            elif p.state == "done":
                sch = p.result[1]
                if sch is not W["memo"].get(fname):
                    violations.append(Violation(
                        "O-load", "load_schema_version(%r) returned a schema that is not the bundled %s (got version %r library %r)"
                        % (spec["args"]["version"], fname, getattr(sch, "version_number", None), getattr(sch, "library", None)),
                        "load-returned-other-content").record(PROP))
                # recovered-miss probe
                if any(h[1] == p.pid and h[3] == "cl-enter-call" for h in hist):
                    probe("load_found_version_missing_then_recovered")
    # ---- O-final: a completed population (return value None) leaves byte-identical copies of every bundled file
    for (pi, spec, p) in procs_meta:
        if spec["kind"] == "populate" and p.state == "done" and p.result[1] is None:
            # judged at the end of the run: files are never removed by the library
            for n in sc["files"]:
                got = final_state.get(n)
                if got != (len(W["files"][n]), W["sha"][n]):
                    violations.append(Violation(
                        "O-final", "a population completed (returned None) but %s in the cache is %s, bundled is %d bytes"
                        % (n, "missing" if got is None else "%d bytes sha1 %s" % (got[0], got[1][:10]), len(W["files"][n])),
                        "completed-population-left-%s" % ("missing-file" if got is None else "different-bytes")).record(PROP))
                    break
        if spec["kind"] == "populate" and p.state == "failed":
            if any(h[1] == p.pid and str(h[6]).startswith("OSError") for h in hist):
                probe("populator_interrupted_by_io_error")      # an injected disk error is an interruption, not a verdict
                continue
            violations.append(Violation("O-load", "cache_local_versions raised %s: %s" % (type(p.exc).__name__, str(p.exc)[:200]),
                                        "populate-raised-%s" % type(p.exc).__name__).record(PROP))
    # ---- O-mutex: critical sections [enter-returned, exit-called | death] on one directory never overlap
    sections = []
    for e in events:
        if e["ev"] == "enter-returned":
            end = None
            for x in events:
                if x["ev"] == "exit-called" and x["pid"] == e["pid"] and x["obj"] == e["obj"] and x["seq"] > e["seq"]:
                    end = x["seq"]
                    break
            # a holder that dies inside the section: the section ends at its KILL event
            kills = [h[0] for h in hist if h[3] == "KILL" and h[1] == e["pid"] and h[0] > e["seq"]]
            if kills and (end is None or kills[0] < end):
                end = kills[0]
            if end is None:
                end = last_seq.get(e["pid"], e["seq"])
            sections.append((e["dir"], e["seq"], end, e["pid"]))
    sections.sort()
    for i, a in enumerate(sections):
        for b in sections[i + 1:]:
            if a[0] == b[0] and a[3] != b[3] and a[1] < b[2] and b[1] < a[2]:
                violations.append(Violation(
                    "O-mutex", "two holders of the cache lock for %s overlap: pid %d in [%d,%d], pid %d in [%d,%d] (event seq)"
                    % (os.path.basename(a[0]), a[3], a[1], a[2], b[3], b[1], b[2]),
                    "two-holders-overlap").record(PROP))
                break
    same_dir_pairs = sum(1 for i, a in enumerate(sections) for b in sections[i + 1:] if a[0] == b[0] and a[3] != b[3])
    diff_dir_overlap = sum(1 for i, a in enumerate(sections) for b in sections[i + 1:]
                           if a[0] != b[0] and a[1] < b[2] and b[1] < a[2])
    probe("mutex_pairs_checked", same_dir_pairs)
    probe("different_dirs_overlap_allowed", diff_dir_overlap)
    # ---- O-timeout: a blocked __enter__ gives up with CacheException within timeout + one check interval
    for e in events:
        if e["ev"] == "enter-raised":
            if e["exc"] != "CacheException":
                if e["exc"] in ("ProcessKilled", "SimAbort"):
                    continue
                if e["exc"] == "OSError" and any(h[1] == e["pid"] and str(h[6]).startswith("OSError") for h in hist):
                    continue     # an injected disk error, not lock contention: not what the clause is about
                violations.append(Violation(
                    "O-timeout", "CacheLock.__enter__ raised %s (%s) instead of the documented CacheException"
                    % (e["exc"], e["msg"]), "enter-raised-%s" % e["exc"]).record(PROP))
            elif "Could not lock" in e["msg"] or "lock" in e["msg"].lower() and "Last updated" not in e["msg"]:
                waited = e["t1"] - e["t0"]
                stalled = "STALL" in faulted.get(e["pid"], ()) or any(h[3] == "JUMP" for h in hist)
                if not stalled and waited > 1.0 + 0.25 + 0.1:
                    violations.append(Violation(
                        "O-timeout", "a waiter needed %.3f simulated s to give up (timeout 1 s + check interval 0.25 s)" % waited,
                        "gave-up-too-late").record(PROP))
                elif waited < 1.0 - 0.26:
                    # "cannot get the lock within its timeout": giving up before the timeout has run establishes nothing
                    violations.append(Violation(
                        "O-timeout", "a waiter gave up with CacheException after only %.3f simulated s of its 1 s lock timeout" % waited,
                        "gave-up-before-timeout").record(PROP))
                else:
                    probe("waiter_gave_up_at_timeout")
    for e in events:
        if e["ev"] == "enter-returned" and "STALL" not in faulted.get(e["pid"], ()):
            waited = e["t1"] - e["t0"]
            if waited > 1.0 + 0.25 + 0.1:
                violations.append(Violation(
                    "O-timeout", "a waiter was still waiting %.3f simulated s after calling __enter__ and then entered "
                    "(timeout 1 s + check interval 0.25 s): it did not give up at its timeout" % waited,
                    "waited-beyond-timeout").record(PROP))
            elif waited > 0.3:
                probe("waiter_entered_after_waiting")
    # ---- O-interval: a refresh that starts within the interval after a recorded timestamp is skipped.
    # t0 = content of last_update.txt read by the oracle at the instant CacheLock.__enter__ was called,
    # t  = the clock value the library read inside __enter__; asserted only when no other process touched
    # the timestamp file in between and no clock jump was injected.
    jumped = any(h[3] == "JUMP" for h in hist)
    skipped_pids = set()
    for e in events:
        if e["ev"] not in ("enter-raised", "enter-returned") or not e.get("write_time") or e.get("stamp0") is None:
            continue
        if e.get("exc") in ("ProcessKilled", "SimAbort"):
            continue
        reads = [h for h in hist if h[1] == e["pid"] and h[3] == "clock-read" and h[0] > e["seq0"]]
        if not reads or jumped:
            continue
        t, seq_t = reads[0][5], max(reads[0][0], e["seq"])
        interfering = any(e["seq0"] < h[0] < seq_t and h[1] != e["pid"] and h[4] and str(h[4]).endswith("last_update.txt")
                          and h[3] in ("open", "write", "torn-write") for h in hist)
        if interfering:
            continue
        if 0 <= t - e["stamp0"] < hl.CACHE_TIME_THRESHOLD:
            if e["ev"] == "enter-returned" or e.get("exc") != "CacheException":
                violations.append(Violation(
                    "O-interval", "a refresh entered the cache lock %.3f s after the recorded refresh time (threshold %d s)"
                    % (t - e["stamp0"], hl.CACHE_TIME_THRESHOLD), "refresh-not-skipped").record(PROP))
            else:
                skipped_pids.add(e["pid"])
    # ---- O-interval, second reading: the refresh time is what the clock showed when the last COMPLETED refresh section
    # was entered (the oracle's own record, not the content of last_update.txt - a timestamp written in another
    # representation than the one read back must not defeat the interval)
    def _enter_clock(e):
        # the clock value the library read while entering; if it read none there, the wall clock at the call
        reads = [h for h in hist if h[1] == e["pid"] and h[3] == "clock-read" and e["seq0"] < h[0] <= e["seq"]]
        if reads:
            return reads[0][5], max(reads[0][0], e["seq"])
        if e.get("wall0") is not None:
            return e["wall0"], e["seq"]
        return None, None
    completed = []
    for x in events:
        if x["ev"] == "exit-returned" and x.get("write_time"):
            ent = [e for e in events if e["ev"] == "enter-returned" and e["pid"] == x["pid"] and e["obj"] == x["obj"]
                   and e["seq"] < x["seq"]]
            if ent:
                t1, _ = _enter_clock(ent[-1])
                if t1 is not None:
                    completed.append((x["seq"], x["dir"], t1, ent[-1]["t0"]))
    for e in events:
        if e["ev"] not in ("enter-raised", "enter-returned") or not e.get("write_time"):
            continue
        if e.get("exc") in ("ProcessKilled", "SimAbort"):
            continue
        prior = [c for c in completed if c[1] == e["dir"] and c[0] < e["seq0"]]
        if not prior:
            continue
        last = max(prior)
        t, seq_t = _enter_clock(e)
        if t is None:
            continue
        touched = any(last[0] < h[0] < seq_t and h[4] and str(h[4]).endswith("last_update.txt")
                      and (h[3] in ("write", "torn-write", "remove", "unlink", "replace", "rename", "truncate")
                           or (h[3] == "open" and any(ch in str(h[5]) for ch in "wax+"))) for h in hist)
        if touched:
            continue
        wall_elapsed, real_elapsed = t - last[2], e["t0"] - last[3]
        if jumped and wall_elapsed >= 0:
            continue          # the clock was moved: what the wall clock shows is all the library can know
        if wall_elapsed < 0 and real_elapsed < hl.CACHE_TIME_THRESHOLD - 0.5:
            probe("refresh_attempt_with_clock_behind_timestamp")
        probe("interval_truth_checked")
        if 0 <= wall_elapsed < hl.CACHE_TIME_THRESHOLD - 0.5 or (wall_elapsed < 0 and real_elapsed < hl.CACHE_TIME_THRESHOLD - 0.5):
            if e["ev"] == "enter-returned" or e.get("exc") != "CacheException":
                violations.append(Violation(
                    "O-interval", "a refresh entered the cache lock %.3f s after the previous completed refresh was started "
                    "(threshold %d s; last_update.txt holds %r; %.3f s of real time)" % (t - last[2], hl.CACHE_TIME_THRESHOLD, e.get("stamp0"), real_elapsed),
                    "refresh-not-skipped").record(PROP))
            else:
                skipped_pids.add(e["pid"])
    for (pi, spec, p) in procs_meta:
        if spec["kind"] != "refresh":
            continue
        if p.state == "failed":
            # not a clause of the statement (which only promises that bundled loads succeed and that a refresh
            # inside the interval is skipped): counted, not judged
            probe("refresh_raised_" + type(p.exc).__name__)
            continue
        if p.state != "done":
            continue
        _, ret, _t, n_req = p.result
        if n_req:
            probe("refresh_ran")
        if p.pid in skipped_pids:
            if ret != -1 or n_req:
                violations.append(Violation(
                    "O-interval", "refresh inside the interval returned %r and issued %d requests" % (ret, n_req),
                    "refresh-not-skipped").record(PROP))
            else:
                probe("refresh_skipped_in_interval")


def _state_brief(st):
    return {k: (v if v == "dir" else v[0]) for k, v in sorted(st.items())}
